#!/bin/sh
# One-time setup after a fresh restore (offline): build both harness binaries.
set -e
D=$(cd "$(dirname "$0")" && pwd)
"$D/build.sh" all
echo "setup ok: $(ls -la "$D/bin" | wc -l) entries in bin/"
