#!/bin/sh
# ./run.sh <Cnn> [quick|thorough]
# Rebuilds the harness against /repo's current working tree, then runs the check.
# exit 0 = held on everything explored; 1 = VIOLATION printed; 2 = BROKEN-CHECK (harness problem)
D=$(cd "$(dirname "$0")" && pwd)
. "$D/env.sh"
ID="$1"; TIER="${2:-${VERIF_TIER:-quick}}"
# tools/seedcheck.sh holds /tmp/.verif-repo-busy while a seeded change is applied to /repo; a
# background run started meanwhile (VERIF_WAIT_REPO=1) waits instead of building the mutated tree.
if [ -n "${VERIF_WAIT_REPO:-}" ]; then
  while [ -e /tmp/.verif-repo-busy ]; do sleep 2; done
fi
if ! "$D/build.sh" all >"$D/.build.log" 2>&1; then
  echo "BROKEN-CHECK property=$ID harness does not build against the current /repo tree:"
  tail -n 30 "$D/.build.log"
  exit 2
fi
exec "$D/bin/vcheck" run "$ID" "$TIER"
