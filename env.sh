# sourced by setup.sh / run.sh: offline Go environment
export GOFLAGS=-mod=mod GOPROXY=off GOSUMDB=off GOTOOLCHAIN=local
export CGO_ENABLED=1
