#!/bin/sh
# Builds bin/vcheck (and bin/vcheck-race when asked) from /verif/harness against /repo's
# CURRENT working tree (go.mod: replace github.com/emersion/go-smtp => /repo). Incremental.
set -e
D=$(cd "$(dirname "$0")" && pwd)
. "$D/env.sh"
cd "$D/harness"
mkdir -p "$D/bin"
go build -tags verif -o "$D/bin/vcheck" ./cmd/vcheck
if [ "$1" = "race" ] || [ "$1" = "all" ]; then
  go build -tags verif -race -o "$D/bin/vcheck-race" ./cmd/vcheck
fi
