#!/bin/bash
# tools/trypatch.sh <patch.diff> <check ids...> — applies a (previously confirmed) seeded patch to
# /repo, runs the quick checks, ALWAYS reverts /repo. Prints exit code and violation signatures.
set -u
. /verif/env.sh
P="$(readlink -f "$1")"; shift
if [ -n "$(git -C /repo status --porcelain)" ]; then echo "/repo not clean, refusing"; exit 4; fi
touch /tmp/.verif-repo-busy
trap 'git -C /repo checkout -q -- . ; rm -f /tmp/.verif-repo-busy' EXIT
git -C /repo apply "$P" || exit 3
for c in "$@"; do
  OUT=$(cd /verif && ./run.sh $c quick 2>&1); RC=$?
  SIGS=$(echo "$OUT" | grep "^VIOLATION" | sed -E 's/.*sig=([^ ]+).*/\1/' | sort -u | tr '\n' ' ')
  echo "check $c: exit=$RC sigs: $SIGS $(echo "$OUT" | grep -E '^SUMMARY' | sed -E 's/.*(wall=[^ ]+).*/\1/')"
  echo "$OUT" | grep -E "^(BROKEN|INCONCL)" | cut -c1-300 | head -3
done
