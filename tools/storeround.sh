#!/bin/bash
# tools/storeround.sh <dir-of-worktrees> <mapfile> : stores a round of seeded changes.
# mapfile lines: "<agent>-<mN> <check> [<check>...]" (first check = the property recorded in meta.json).
# For each line tools/seedcheck.sh confirms the change in its scratch worktree (out/<mN>, or the
# hand re-expressed out/<mN>r when the original no longer applies to /repo HEAD), runs the quick
# checks against /repo with the patch applied, reverts, and stores seeded/<agent>-<mN>/.
D="$1"; MAP="$2"
cd "$(dirname "$0")/.."
while read -r k checks; do
  [ -z "$k" ] && continue
  w=${k%%-*}; m=${k##*-}; src=$m; [ -d "$D/$w/out/${m}r" ] && src=${m}r
  echo "=== $k (src $src) checks: $checks"
  rm -rf seeded/$k seeded/$w-${m}r
  tools/seedcheck.sh "$D/$w" $w $src $checks 2>&1 | grep -E "^(confirmed|check|PATCH|BROKEN|INCON|WARN)" | cut -c1-300
  [ -d seeded/$w-$src ] || continue
  if [ "$src" != "$m" ]; then
    mv seeded/$w-$src seeded/$k; cp "$D/$w/out/$m/patch.diff" seeded/$k/patch.original.diff
    sed -i "s/\"id\":\"$w-$src\"/\"id\":\"$k\",\"note\":\"patch.diff is the sub-agent's change re-expressed on the repaired tree (the original, patch.original.diff, no longer applies after later fix commits)\"/" seeded/$k/meta.json
  fi
  first=$(echo $checks | cut -d' ' -f1); sed -i "s/\"property\":\"$w\"/\"property\":\"$first\"/" seeded/$k/meta.json
done < "$MAP"
