#!/usr/bin/env python3
"""Regenerates /verif/MANIFEST.json from the table below and validates it (and any evidence
files present) against the schemas in /root/.vp. Run with python3-vt (has jsonschema)."""
import json, os, sys, glob

V = os.path.dirname(os.path.dirname(os.path.abspath(__file__)))

# id -> (category, technique, level text, level note, design ref)
CHECKS = {
 "C01": ("exploration",
  "runtime monitoring: recording backend reader vs RFC 5321 4.5.2 reference unstuffer over exhaustive byte-class streams x segmentations x read sizes",
  "Executes the real server on an in-memory segment-preserving transport for every stream over {'.',CR,LF,x} up to a length bound (plus seeded 256-octet streams), under many segmentations and backend read-buffer plans; the octets and terminal error observed by the recording backend are compared with an independent line-splitter reference. Exhaustive in the bound, sampled beyond it; a monitor of executions, not a proof.",
  "Trusts the harness reference (ref.Unstuff), the in-memory transport and the Go runtime; streams with LF-free runs above MaxLineLength are out of scope (C19).",
  "DESIGN.md section 5 C01"),
 "C02": ("exploration",
  "runtime monitoring: bait-address and marker-command oracle over the backend event log and reply accounting, hostile bodies with terminator look-alikes",
  "Runs the real server on message bodies assembled from bait command lines and end-of-data look-alikes, across backend behaviours, size limits, SMTP/LMTP modes and segmentations; the recording backend must never see a bait address, the first command executed after the message must be the marker that follows the true CRLF.CRLF and the reply count after 354 must be exactly finals+4. Observes executions of a generated corpus; no claim beyond it.",
  "Trusts ref.Unstuff for where the true end marker is, the in-memory transport and the recording backend; acceptance of the message itself is not judged here (C06).",
  "DESIGN.md section 5 C02"),
 "C05": ("exploration",
  "runtime monitoring: recording backend reader and reply accounting over exhaustive chunk compositions x segmentations, bait payloads for refused BDATs",
  "Drives the real server with every composition of short hostile messages into up to four BDAT chunks (zero-size chunks and both LAST placements included), seeded chunkings of longer binary messages, four segmentation disciplines and five refusal states whose chunks carry bait commands; compares the octets, terminal error and call count seen by the recording backend with what was sent, counts replies and checks that marker commands (NOOP or empty lines) are executed in place; chunk sizes are also written zero-padded; chunks overtaken by the read timeout (virtual deadline) and chunks the backend gives up on while a binary remainder is still on the wire must not leak into the command stream. A BDAT sent before any greeting is one of the refused kinds.",
  "Known finding C05:linelimit-readahead (KNOWN_FINDINGS.txt) is matched narrowly by precondition+symptom; BDAT with unparsable size not judged.",
  "DESIGN.md section 5 C05"),
 "C06": ("exploration",
  "runtime monitoring: octet counting at the backend reader, reply codes, differential run with the limit off",
  "Executes, for limits N in a small range, messages of N-2..N+2 and 3N octets via DATA (plain and dot-stuffed) and via every composition into up to three BDAT chunks, with several backend read sizes and declared SIZE values; the recording reader's octet count and terminal error, the reply codes and a second execution of the same case without limit are compared.",
  "Backend honours the contract of returning the reader's error; SIZE beyond 32 bits left to C11/C14.",
  "DESIGN.md section 5 C06"),
 "C07": ("fault_enumeration",
  "runtime monitoring with crash-point enumeration: connection cut / read error injected at every octet offset of a conversation corpus; recording reader's terminal error and reply stream judged",
  "For a corpus of 27 DATA/BDAT conversations (SMTP, LMTP, LMTP per-recipient) the client stream is cut after every octet offset with three failure kinds (clean close, timeout-flavoured and reset-flavoured read error) and two segmentations, plus every abandoning command between chunks; the monitor requires a non-EOF terminal error at the backend's reader and no positive reply for every message whose end marker / LAST chunk was not received in full, and EOF only with the full reference content. Exhaustive over the offsets of the corpus, nothing beyond it. A Data call that is still open when the peer is gone, every octet has been consumed and the log is quiet is reported as reader-never-fails (state-based, after a watchdog expiry).",
  "Cuts that only remove the CRLF of a zero-size 'BDAT 0 LAST' command line are not judged (all message octets were delivered); partial command lines at EOF are not judged.",
  "DESIGN.md section 5 C07"),
 "C08": ("fault_enumeration",
  "runtime monitoring: session-lifecycle automaton over the backend event log under cut-point enumeration and server-initiated closes with buffered suffixes; goroutine-table leak check",
  "Every octet offset of 30 conversations (incl. AUTH exchanges) and of a STARTTLS conversation (plaintext part and inner TLS part) is used as a disconnect point with three failure kinds; server-initiated close reasons (QUIT, error threshold with several kinds of invalid line, over-long line, idle timeout via a virtual deadline also inside AUTH and DATA, backend panic inside Mail / NewSession / Rcpt / Data (early and after the whole message was read, via DATA and BDAT LAST) / Reset, Conn.Reject called from NewSession) are combined with every command suffix of length <=2 already buffered behind the closing command, with ReadTimeout 0 and set, SMTP and LMTP, at default GOMAXPROCS and 1. A session-lifecycle automaton over the recorded callbacks checks exactly-one Logout per session, no callback after Logout, nothing executed after the closing reply or after a 421, no more Mail/Rcpt/NewSession callbacks than completely received (CRLF-terminated) commands of that kind at every cut; the connection's own Close is overlapped with Server.Close / Conn.Close while parked in each callback kind; for every conversation the k-th write of the server and every later one is made to fail (peer gone: reset / timeout flavour, input still readable) for every k; at the end of the run no goroutine with a go-smtp frame may remain.",
  "Known finding C08:data-begins-after-logout (zero-octet transfer aborted before the delivery goroutine entered Data) is matched narrowly; leak check is global per run, not per case.",
  "DESIGN.md section 5 C08"),
 "C03": ("exploration",
  "runtime monitoring: transaction-monitor automaton driven by observed replies and recorded backend callbacks over exhaustive short and seeded long command histories",
  "All histories of bounded length over 43 abstract commands (incl. over-limit payloads and BODY=BINARYMIME senders accepted / refused) appended to ten prefix states in six configurations, plus seeded longer histories, are executed lock-step against the real server; an independent transaction automaton (greeted / sender accepted / accepted recipients / chunked transfer open) judges every callback's precondition, the 5xx+no-callback rule for out-of-order commands, Reset after every transaction end, Logout at STARTTLS and what NewSession can observe. Exhaustive in the stated bound, sampled beyond.",
  "A second MAIL accepted inside an open transaction makes the rest of that transaction unjudged; Reset required only when a sender had been accepted.",
  "DESIGN.md section 5 C03"),
 "C04": ("exploration",
  "runtime monitoring: strict RFC 5321/2034 reply parser, per-command reply accounting, token attribution, differential execution across sending disciplines, gate-controlled overlap matrix",
  "The history workload is executed lock-step (per-command arity, syntax, enhanced-code class, unique-token attribution of every backend verdict) and again as pipelined groups and randomly re-cut segments whose reply-code and callback sequences must equal the lock-step run; an overlap matrix enumerates all orders in which a parked delivery of an aborted chunked transaction, the completion of the next transaction and its delivery can happen (gates in the harness backend, no sleeps); control octets are injected at eight reply-echo sites; clock cases let a long (virtual) time pass before each step of a plaintext / implicit-TLS / STARTTLS conversation and fire the deadline of every direction whose timeout is not configured: every step must still be answered; slow-callback cases park Mail / Rcpt while DATA or BDAT is already pipelined and let the read deadline expire meanwhile. Virtual-clock cases: a backend callback (Mail, Rcpt, or the verdict after the whole message was read) is parked while ReadTimeout and / or WriteTimeout expire, and every reply that follows must still arrive; a connection whose writes fail from the k-th on is followed by an ordinary conversation on a second connection of the same server, which must get its own replies and nothing else.",
  "Reply wording and codes are judged only where the statement fixes them; 8-bit reply text not judged.",
  "DESIGN.md section 5 C04"),
 "C19": ("exploration",
  "runtime monitoring: ErrorLog tap for recovered panics, transport consumption counter, reply parser and backend log under boundary-length lines, endless lines, exhaustive short byte strings and seeded token soups",
  "Lines of total length limit-2..limit+3 and 3*limit for five limits (32, 64, 2000, 5000, 8192) are placed at nine positions of a conversation (first line, later, MAIL line, inside an AUTH exchange, after DATA, after a non-LAST chunk, after a refused BDAT, after a chunk the backend failed, after an over-limit chunk), in one segment and in two (cut in the middle, after the first octet, before CRLF, before LF), with Server.Debug unset and set; endless LF-free input is fed in 512-octet segments while the transport counts what the server consumed before closing; every string of bounded length over nine hostile octets and seeded token soups (a third of them MAIL/RCPT lines with a valid path followed by a soup of parameter fragments, every extension enabled) are sent as command lines in seven session states (incl. greeting refused by the backend and greeting of the wrong flavour); error floods of 3..6 invalid commands in three mixes. A recovered panic in Server.ErrorLog, a crash of the child process, a wrong 500/close decision, unbounded consumption or a connection surviving the fourth invalid command is a violation.",
  "Lines of exactly limit+1 octets are not judged; BDAT payload is sent in its own segment here because payload read ahead with its command line is the C05 known finding.",
  "DESIGN.md section 5 C19"),
 "C09": ("exploration",
  "runtime monitoring: recording scripted SASL mechanisms on both sides, transcript equality with the wire, state checks around the exchange",
  "Raw exchanges (0..3 challenges of arbitrary octets, every single-step deviation: empty line, bad base64, '*', 1100-octet response; initial response none / '=' / base64 / bad) are driven against the real server in every combination of TLS state, AllowInsecureAuth and backend kind, with surrounding histories (before greeting, after failure, after success, after RSET / re-EHLO, plaintext success followed by STARTTLS, STARTTLS accepted but the handshake failed so that the connection is still plaintext); the recording mechanism must see exactly the decoded octets, or nothing at all where AUTH must be unreachable. The real Client.Auth is run against the real server with recording mechanisms on both ends and against a scripted fake server (non-base64 334, 5xx at step k, early 235). Round 9: base64 with wrong, missing or excess padding counts as malformed (initial response and every step); against the scripted peer every line the client writes in answer to a 334 must be the base64 of what its mechanism returned (an empty response is an empty line).",
  "'=' as a non-initial response and nil responses from a sasl.Client are not judged.",
  "DESIGN.md section 5 C09"),
 "C10": ("exploration",
  "runtime monitoring: backend event log with bait addresses, TLS record-framing monitor and plaintext-token scan on the raw client->server tap, capability view after the upgrade",
  "Server: six pre-STARTTLS histories x four plaintext injections pipelined behind STARTTLS (same or following segment) x SMTP/LMTP, real TLS handshakes, probes inside TLS for remembered greeting, envelope, authentication and session. Client: NewClientStartTLS over the in-memory transport and DialStartTLS / SendMail / SendMailTLS over loopback TCP against scripted peers (no STARTTLS, 454, garbage after 220, injected plaintext replies, untrusted certificate, correct server with multi-line and bare EHLO replies); everything the client writes raw is checked to be TLS records after STARTTLS and scanned for envelope, credentials and body tokens.",
  "The harness CA is made this process's system root store via SSL_CERT_FILE so that the nil-config APIs can succeed on the positive path.",
  "DESIGN.md section 5 C10"),
 "C12": ("exploration",
  "runtime monitoring over the exhaustively enumerated configuration space: capability set vs reference function, one behavioural probe per extension",
  "All 4096 configurations (5 extension flags x size limit x recipient limit x four TLS states x AllowInsecureAuth x backend kind x SMTP/LMTP) are instantiated as real servers; the EHLO/LHLO capability set (order-free, exact arguments) is compared with a reference function written from the statement, HELO must list nothing, every extension parameter is probed (250 iff enabled, 504 iff disabled), STARTTLS/AUTH/SIZE/RCPTMAX/BDAT are exercised, BINARYMIME is honoured and does not leak into the next transaction, and the capability set is checked again several connections of one server whose sessions offer different SASL mechanism lists (one after the other, and with one greeting held inside AuthMechanisms while another connection is greeted and answered) must each be told what their own state and session give; after a successful AUTH, after a successful STARTTLS and after a STARTTLS whose handshake failed, for the state the connection is then in. exhaustive=true for the configuration space; one probe input per extension. Round 8 added 192 multi-connection cases: several connections of ONE server whose sessions offer different SASL mechanism lists - one after the other (the second upgraded with STARTTLS and greeted again), and with one greeting held inside AuthMechanisms on a gate while another connection (plaintext / implicit TLS) is greeted and answered - must each be told what their own state and their own session give.",
  "AUTH= on servers not advertising AUTH and REQUIRETLS on plaintext connections of servers that enable it are not judged.",
  "DESIGN.md section 5 C12"),
 "C11": ("exploration",
  "runtime monitoring: recorded Mail/Rcpt arguments vs values known by construction (valid lines) and vs an independent conservative reference classifier (definitely-invalid lines)",
  "Grammar-derived valid MAIL/RCPT lines carry their expected mailbox and option values by construction and are compared field by field with what the recording backend received (unset fields must be zero); every single-point mutation of seed lines, all short strings over ten syntactically significant characters used as the path, and a table of malformed / disabled-extension parameters (truncated xtext hexchars at value ends included) are classified by ref.ClassifyLine, and the definitely-invalid ones must be answered 5xx without any backend call - also when the server closes the connection after its answer; a recovered panic is a violation; refused 'poison' commands precede judged lines so that leftovers of a refused command show. All 32 extension-flag settings are used. Round 9: lenient lines (xtext hexchars above +7F in AUTH=) may be refused, but if accepted the backend must hold exactly those octets.",
  "The verdict is relative to the harness's conservative reading of RFC 5321 4.1.2 and the extension RFCs; lenient forms are deliberately unjudged.",
  "DESIGN.md section 5 C11"),
 "C13": ("exploration",
  "runtime monitoring: unique-token statuses and a per-address FIFO reference attribution over exhaustively enumerated recipient lists and status-call sequences; state-based deadlock detection",
  "For all 30 recipient lists of length <=4 over two addresses, every sequence of SetStatus calls within the multiplicities, three timings, both return values, five panic/misuse kinds, three transfer forms plus three early-failure forms (the delivery gives up before the LAST chunk is consumed: nothing read, three octets read, two of three chunks read), both backend kinds, refused recipients and refused BDAT commands in between, a second transaction with a different recipient list on the same connection, and (every third case) two addresses that differ only in the letter case of the domain, the real LMTP server's final replies are compared with the reference attribution (count, order, recipient named, code, unique token, verbatim status text containing '%'); the message octets and the absence of recovered panics are checked too. A deadlock is reported from state (backend returned, client idle, server neither reading nor writing, corroborated by the goroutine table), never from elapsed time alone.",
  "Statuses set after LMTPData returned violate the backend contract and their effect is not judged; a backend that returns nil without reading the message is not judged for the statuses it did not set.",
  "DESIGN.md section 5 C13"),
 "C16": ("exploration",
  "runtime monitoring: real client against real server; backend octets vs DotWriter reference, envelope equality, Close verdicts, wire tap around the second Close",
  "Bodies exhaustive over the tokens {'.', LF, CRLF, x} up to a bound plus seeded 8-bit bodies are written through Client.Data/LMTPData in several partitions of Write calls; the recording backend's octets are compared with the reference normalisation, the envelope with what was given, Close with the server's scripted verdict (accept / reject with token), and a second Close must fail locally without a single octet appearing on the client->server tap. Virtual time: in a fifth of the cases every read deadline armed on the server's end is fired in the middle of the body (WriteTimeout set, ReadTimeout unset), in a third every read/write deadline still armed on the client's end is; a second message with other recipients follows in a quarter. Client.SendMail is also given sources that fail after 0 / 1 / half / all-but-one / all octets: it must report the failure and the backend's reader must not end in EOF.",
  "Empty body not judged; CR occurs only inside CRLF as the statement requires.",
  "DESIGN.md section 5 C16"),
 "C17": ("exploration",
  "runtime monitoring: product of error shapes through four callbacks, observed on the wire (strict parser) and through the real client's returned SMTPError",
  "Seven reply codes x three enhanced-code modes x fourteen message shapes (incl. text starting with the very code that is set, multi-line, empty inner line) x four callbacks x SMTP/LMTP x DATA/BDAT plus plain errors: the reply on the wire must carry the same code, the same (or derived X.0.0, or no) enhanced code on the final line and consistently on the others, and the same text lines; the go-smtp client must return an equal *SMTPError. The product is enumerated completely.",
  "NoEnhancedCode combined with text that looks like an enhanced code is not judged on the client side.",
  "DESIGN.md section 5 C17"),
 "C18": ("exploration",
  "runtime monitoring: real LMTP client against real per-recipient LMTP server (and a scripted peer for 251 replies); callback sequences vs scripted verdicts; transport-state stall detection",
  "All transactions of 1..3 recipients (refused at RCPT / ok / refused after DATA) are combined into sequences of 1..3 transactions per connection, with LMTPData+callback, LMTPData(nil) and Data(), with and without Reset in between, also with the DATA command refused once (451) and issued again inside the transaction; the callback sequence of every transaction must equal the accepted recipients with their own unique-token statuses, Close must return (a client parked in Close while the server waits for a command is reported from the transport state), a refusal without callback must come back from Close, and the connection must still be in step afterwards (NOOP, QUIT).",
  "Exhaustive for single transactions; pairs and triples are sampled in the quick tier.",
  "DESIGN.md section 5 C18"),
 "C14": ("exploration",
  "runtime monitoring: real client to real server round trip; field-wise comparison at the recording backend; refusals attributed to encoding only inside the stated value domain",
  "Every Unicode scalar value (quick: all up to U+07FF, all class boundaries, every 61st above; thorough: all) is placed in ORCPT(utf-8) against servers with and without SMTPUTF8 (unitext vs xtext form), every 7-bit value in ENVID / ORCPT(rfc822) / AUTH, all short strings over thirteen encoding-significant characters in every string option, all NOTIFY sets and orders, RET, SIZE up to 2^62, RRVS times with zones and sub-second parts, and all option-presence subsets; values accepted by the client API must arrive identically, and a server refusal of an in-domain value is an encoding fault.",
  "MailOptions.Body not judged; quoted local-parts may arrive unquoted; control characters are judged for silent corruption only.",
  "DESIGN.md section 5 C14"),
 "C15": ("exploration",
  "runtime monitoring: per-API-call segmentation of the raw client->server tap against a scripted server; parameter keywords vs the most recent EHLO reply",
  "A scripted peer advertises each of the 128 subsets of seven extensions (a different one after Reset); MAIL/RCPT option subsets are issued and the keywords on the wire must belong to extensions in the most recent EHLO reply, REQUIRETLS/SMTPUTF8 not offered must be a local error with nothing written; all short strings over {CR, LF, NUL, SP, <, >, a} and a few long/smuggling values are passed in fourteen string-typed arguments (MailOptions.Body among them, which also rotates through every body type in the parameter product) and every transport write of the call and of the following call must be exactly one CRLF-terminated line.",
  "Relies on the client flushing once per command; the message body is exempt from the one-line rule.",
  "DESIGN.md section 5 C15"),
 "C20": ("exploration",
  "runtime monitoring: Go race detector over enumerated event orders and close/callback overlaps; porcupine linearizability check of concurrent Close/Shutdown histories; termination and goroutine-table checks; scripted Accept errors",
  "Under the race-detector build (GOMAXPROCS default and 1; also 4 and a non-race pass in thorough): all orders of up to three (thorough: four) harness events from {delivery completes, RSET, next transaction, QUIT, disconnect, Server.Close, Server.Shutdown} against a parked BDAT delivery, a parked LMTP DATA delivery, a parked LMTP BDAT delivery, a parked BDAT delivery of an LMTP server over a plain Session and a BDAT delivery of a backend that serialises Data and Reset with its own mutex; connections idle, in their implicit-TLS handshake, stalled inside a STARTTLS handshake only just handed out by Accept, or handed out at the very moment the listener is closed, or blocked in the write of a reply because the peer has stopped reading, when Close / Shutdown fires; Shutdown with a context that has already expired; Server.Close overlapping each callback kind parked on a gate, and called directly from callbacks; groups of 2..8 barrier-released Close/Shutdown callers on one or two listeners (one of them failing to close) whose recorded call/return history is checked by porcupine against the sequential model 'first caller gets the listener result, later ones ErrServerClosed'; all sequences of up to five temporary/permanent Accept errors; 2..4 listeners of which one Serve ends early on a permanent Accept error while the others keep serving and must all be closed by Close / Shutdown; replays of C03/C05/C13 cases for race coverage. Race reports are parsed, de-duplicated by racing statement pair and are violations; Serve/handlers/deliveries must terminate and no library goroutine may remain at the end. Round 9: while the Logout of one connection is held on a gate another connection must be accepted, greeted and served (judged from the goroutine table when it is not); Serve must return after Close also when the closed listener keeps reporting temporary Accept errors.",
  "The race detector sees only executed accesses; interleavings are diversified by enumerated orders, gates, yields and GOMAXPROCS, not exhausted.",
  "DESIGN.md section 5 C20"),
}

NOT_APPLICABLE = {
}

def main():
    props = [json.loads(l)["id"] for l in open(os.path.join(V, "properties.jsonl"))]
    checks = []
    for pid in props:
        if pid not in CHECKS:
            continue
        cat, tech, text, note, ref = CHECKS[pid]
        checks.append({
            "property_id": pid,
            "quick_cmd": f"./run.sh {pid} quick",
            "thorough_cmd": f"./run.sh {pid} thorough",
            "evidence_file": f"/verif/evidence/{pid}.json",
            "replay_cmd_template": "./bin/vcheck replay {path}",
            "engine": "vcheck",
            "level_claimed": {"category": cat, "text": text, "design_ref": ref},
            "level_note": note,
            "technique": tech,
        })
    na = []
    for pid in props:
        if pid in CHECKS:
            continue
        reason = NOT_APPLICABLE.get(pid, "check not built yet in this round (runtime monitoring applies; see DESIGN.md section 5)")
        na.append({"property_id": pid, "reason": reason})
    hooks_commits = []
    m = {
        "version": 1,
        "setup_cmd": "./setup.sh",
        "hooks": {
            "guard": "verif",
            "enable": "go build -tags verif (the harness always passes it; no file in /repo is currently selected by the tag: every observation point is at an API or network boundary owned by the harness)",
            "baseline_off_cmd": "cd /repo && GOFLAGS=-mod=mod GOPROXY=off GOSUMDB=off GOTOOLCHAIN=local go test -vet=off -count=1 -timeout 25m ./...",
            "source_commits": hooks_commits,
            "add_only": True,
        },
        "engines": [{
            "name": "vcheck",
            "path": "/verif/harness",
            "serves_properties": [c["property_id"] for c in checks],
            "kind_free_text": "Go harness driving the real smtp.Server/smtp.Client built from /repo's working tree over an in-memory segment-preserving net.Conn, with a recording scriptable backend, a strict reply parser, reference models, the Go race detector and goroutine-table inspection; offline oracles over the unified event log",
        }],
        "checks": checks,
        "not_applicable": na,
        "notes": "All checks: ./run.sh <ID> <tier> rebuilds the harness against /repo's current tree (go.mod replace => /repo). Exit 0 held / 1 VIOLATION / 2 BROKEN-CHECK (harness problem, never a verdict). Known findings: /verif/KNOWN_FINDINGS.txt.",
    }
    path = os.path.join(V, "MANIFEST.json")
    json.dump(m, open(path, "w"), indent=1)
    try:
        import jsonschema
        jsonschema.validate(m, json.load(open("/root/.vp/MANIFEST.schema.json")))
        es = json.load(open("/root/.vp/EVIDENCE.schema.json"))
        for f in sorted(glob.glob(os.path.join(V, "evidence", "*.json"))):
            jsonschema.validate(json.load(open(f)), es)
            print("evidence ok:", os.path.basename(f))
        print("MANIFEST.json valid;", len(checks), "checks,", len(na), "not_applicable")
    except ImportError:
        print("jsonschema not available; wrote MANIFEST.json unvalidated")

if __name__ == "__main__":
    main()
