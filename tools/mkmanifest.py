#!/usr/bin/env python3
"""Regenerates /verif/MANIFEST.json from the table below and validates it (and any evidence
files present) against the schemas in /root/.vp. Run with python3-vt (has jsonschema)."""
import json, os, sys, glob

V = os.path.dirname(os.path.dirname(os.path.abspath(__file__)))

# id -> (category, technique, level text, level note, design ref)
CHECKS = {
 "C01": ("exploration",
  "runtime monitoring: recording backend reader vs RFC 5321 4.5.2 reference unstuffer over exhaustive byte-class streams x segmentations x read sizes",
  "Executes the real server on an in-memory segment-preserving transport for every stream over {'.',CR,LF,x} up to a length bound (plus seeded 256-octet streams), under many segmentations and backend read-buffer plans; the octets and terminal error observed by the recording backend are compared with an independent line-splitter reference. Exhaustive in the bound, sampled beyond it; a monitor of executions, not a proof.",
  "Trusts the harness reference (ref.Unstuff), the in-memory transport and the Go runtime; streams with LF-free runs above MaxLineLength are out of scope (C19).",
  "DESIGN.md section 5 C01"),
}

NOT_APPLICABLE = {
}

def main():
    props = [json.loads(l)["id"] for l in open(os.path.join(V, "properties.jsonl"))]
    checks = []
    for pid in props:
        if pid not in CHECKS:
            continue
        cat, tech, text, note, ref = CHECKS[pid]
        checks.append({
            "property_id": pid,
            "quick_cmd": f"./run.sh {pid} quick",
            "thorough_cmd": f"./run.sh {pid} thorough",
            "evidence_file": f"/verif/evidence/{pid}.json",
            "replay_cmd_template": "./bin/vcheck replay {path}",
            "engine": "vcheck",
            "level_claimed": {"category": cat, "text": text, "design_ref": ref},
            "level_note": note,
            "technique": tech,
        })
    na = []
    for pid in props:
        if pid in CHECKS:
            continue
        reason = NOT_APPLICABLE.get(pid, "check not built yet in this round (runtime monitoring applies; see DESIGN.md section 5)")
        na.append({"property_id": pid, "reason": reason})
    hooks_commits = []
    m = {
        "version": 1,
        "setup_cmd": "./setup.sh",
        "hooks": {
            "guard": "verif",
            "enable": "go build -tags verif (the harness always passes it; no file in /repo is currently selected by the tag: every observation point is at an API or network boundary owned by the harness)",
            "baseline_off_cmd": "cd /repo && GOFLAGS=-mod=mod GOPROXY=off GOSUMDB=off GOTOOLCHAIN=local go test -vet=off -count=1 -timeout 25m ./...",
            "source_commits": hooks_commits,
            "add_only": True,
        },
        "engines": [{
            "name": "vcheck",
            "path": "/verif/harness",
            "serves_properties": [c["property_id"] for c in checks],
            "kind_free_text": "Go harness driving the real smtp.Server/smtp.Client built from /repo's working tree over an in-memory segment-preserving net.Conn, with a recording scriptable backend, a strict reply parser, reference models, the Go race detector and goroutine-table inspection; offline oracles over the unified event log",
        }],
        "checks": checks,
        "not_applicable": na,
        "notes": "All checks: ./run.sh <ID> <tier> rebuilds the harness against /repo's current tree (go.mod replace => /repo). Exit 0 held / 1 VIOLATION / 2 BROKEN-CHECK (harness problem, never a verdict). Known findings: /verif/KNOWN_FINDINGS.txt.",
    }
    path = os.path.join(V, "MANIFEST.json")
    json.dump(m, open(path, "w"), indent=1)
    try:
        import jsonschema
        jsonschema.validate(m, json.load(open("/root/.vp/MANIFEST.schema.json")))
        es = json.load(open("/root/.vp/EVIDENCE.schema.json"))
        for f in sorted(glob.glob(os.path.join(V, "evidence", "*.json"))):
            jsonschema.validate(json.load(open(f)), es)
            print("evidence ok:", os.path.basename(f))
        print("MANIFEST.json valid;", len(checks), "checks,", len(na), "not_applicable")
    except ImportError:
        print("jsonschema not available; wrote MANIFEST.json unvalidated")

if __name__ == "__main__":
    main()
