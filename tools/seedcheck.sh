#!/bin/bash
# tools/seedcheck.sh <worktree-dir> <ID> <mN> [extra check ids...]
# 1. confirms in the scratch worktree that the seeded change compiles, passes the existing suite,
#    and that its demonstration test fails with it and passes without it;
# 2. applies the patch to /repo, runs the quick check(s), and ALWAYS reverts /repo afterwards;
# 3. stores the change under /verif/seeded/<ID>-<mN>/ with meta.json.
set -u
. /verif/env.sh
WT="$1"; ID="$2"; M="$3"; shift 3
CHECKS="$ID $*"; case "$ID" in C[0-9][0-9]) ;; *) CHECKS="$*";; esac
SRC="$WT/out/$M"
DST="/verif/seeded/$ID-$M"
[ -f "$SRC/patch.diff" ] || { echo "no patch in $SRC"; exit 2; }
cd "$WT" && git checkout -q -- . && git clean -fdq -e out >/dev/null 2>&1
# bring the worktree to /repo's HEAD so that the confirmation is against the current tree
git checkout -q --detach "$(git -C /repo rev-parse HEAD)" 2>/dev/null
PKGS=$(go list ./... | grep -v /out/)
if ! git apply --check "$SRC/patch.diff" 2>/tmp/seed.err; then echo "PATCH DOES NOT APPLY to current HEAD: $(cat /tmp/seed.err | head -3)"; exit 3; fi
git apply "$SRC/patch.diff"
go build ./... 2>&1 | tail -3
SUITE=$(go test -vet=off -count=1 -timeout 300s $PKGS 2>&1 | tail -3)
echo "suite with change: $SUITE"
cp "$SRC/demo_test.go" ./zz_seed_demo_test.go
DEMO_WITH=$(go test -vet=off -count=1 -timeout 120s -run "TestSeeded_" . 2>&1 | tail -4)
echo "demo with change: $(echo "$DEMO_WITH" | tail -1)"
git checkout -q -- . 
DEMO_WITHOUT=$(go test -vet=off -count=1 -timeout 120s -run "TestSeeded_" . 2>&1 | tail -2)
echo "demo without change: $(echo "$DEMO_WITHOUT" | tail -1)"
rm -f ./zz_seed_demo_test.go
S_OK=no; echo "$SUITE" | grep -q "^ok" && ! echo "$SUITE" | grep -q FAIL && S_OK=yes
W_FAIL=no; echo "$DEMO_WITH" | grep -q "FAIL" && W_FAIL=yes
WO_OK=no; echo "$DEMO_WITHOUT" | grep -q "^ok" && WO_OK=yes
echo "confirmed: suite_passes=$S_OK demo_fails_with=$W_FAIL demo_passes_without=$WO_OK"
# run our checks against /repo with the patch applied
RESULTS=""
if [ -n "$(git -C /repo status --porcelain)" ]; then echo "/repo not clean, refusing"; exit 4; fi
touch /tmp/.verif-repo-busy
trap 'git -C /repo checkout -q -- . ; rm -f /tmp/.verif-repo-busy' EXIT
git -C /repo apply "$SRC/patch.diff"
for c in $CHECKS; do
  OUT=$(cd /verif && ./run.sh $c quick 2>&1)
  RC=$?
  SIGS=$(echo "$OUT" | grep "^VIOLATION" | sed -E 's/.*sig=([^ ]+).*/\1/' | sort -u | tr '\n' ' ')
  echo "check $c: exit=$RC sigs: $SIGS"
  echo "$OUT" | grep -E "^(BROKEN|INCONCL)" | cut -c1-300 | head -3
  RESULTS="$RESULTS{\"check\":\"$c\",\"exit\":$RC,\"sigs\":\"$SIGS\"},"
done
git -C /repo checkout -q -- .
rm -f /tmp/.verif-repo-busy
[ -z "$(git -C /repo status --porcelain)" ] || echo "WARNING: /repo not clean after revert"
mkdir -p "$DST"
cp "$SRC/patch.diff" "$SRC/demo_test.go" "$DST/"; cp "$SRC/README.md" "$DST/" 2>/dev/null
cat > "$DST/meta.json" <<META
{"property":"$ID","id":"$ID-$M","repo_head":"$(git -C /repo rev-parse --short HEAD)",
 "confirmed":{"suite_passes_with_change":"$S_OK","demo_fails_with_change":"$W_FAIL","demo_passes_without_change":"$WO_OK"},
 "needs":"see README.md",
 "ran":"tools/seedcheck.sh: go test suite + demo in scratch worktree; ./run.sh <check> quick against /repo with patch applied, then reverted",
 "checks":[${RESULTS%,}]}
META
