#!/bin/bash
# tools/seedround.sh <dir-of-worktrees> <agent ids...> : runs tools/seedcheck.sh for out/m1..m3 of each
# agent worktree against the properties its README names (first three C-ids).
D="$1"; shift
cd "$(dirname "$0")/.."
for w in "$@"; do for m in m1 m2 m3; do
  [ -f "$D/$w/out/$m/patch.diff" ] || { echo "=== $w $m: no patch"; continue; }
  props=$(grep -oE "C[0-9]{2}" "$D/$w/out/$m/README.md" | awk '!s[$0]++' | head -3 | tr '\n' ' ')
  echo "=== $w $m [$props] $(head -1 $D/$w/out/$m/README.md | cut -c1-150)"
  tools/seedcheck.sh "$D/$w" "$w" "$m" $props 2>&1 | grep -E "^(confirmed|check|PATCH|BROKEN|INCON|WARN)" | cut -c1-260
done; done
