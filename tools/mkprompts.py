#!/usr/bin/env python3
# tools/mkprompts.py <round-dir> <prefix> <n> <outdir> : writes one prompt per sub-agent for a free-choice round of
# seeded changes. The prompt holds the text of the twenty properties and one-line summaries of the changes already
# stored under seeded/ (taken from the sub-agents' own READMEs) - nothing about the checks.
import json, os, re, sys
root = os.path.join(os.path.dirname(os.path.abspath(__file__)), '..')
rdir, prefix, n, outdir = sys.argv[1], sys.argv[2], int(sys.argv[3]), sys.argv[4]
props = [json.loads(l) for l in open(os.path.join(root, 'properties.jsonl'))]
ptext = '\n'.join('%s - %s: %s' % (p['id'], p['title'], p['statement']) for p in props)
taken = []
for d in sorted(os.listdir(os.path.join(root, 'seeded'))):
    f = os.path.join(root, 'seeded', d, 'README.md')
    if not os.path.exists(f): continue
    t = re.sub(r'\s+', ' ', open(f, errors='replace').read()).strip()
    taken.append('- %s: %s' % (d, t[:230]))
wanted = open(os.path.join(root, 'notes', 'wanted.txt')).read().strip()
prefs = ['C20, C08, C13', 'C04, C03, C17', 'C05, C06, C07', 'C16, C18, C15', 'C09, C10, C12', 'C11, C14, C19',
         'C01, C02, C07', 'C13, C18, C20', 'C03, C08, C04', 'C10, C16, C19']
for i in range(1, n + 1):
    a = '%s%02d' % (prefix, i); wt = '%s/%s' % (rdir, a)
    s = f"""You are helping test a verification harness by producing realistic seeded bugs ("mutants") for the Go library emersion/go-smtp (an ESMTP/LMTP client and server library).

You have your own scratch git worktree of the library at: {wt}   (work ONLY inside that directory; do NOT read or touch /verif or /repo; do not commit).

Every shell command needs this environment first (the sandbox is offline):
  export GOFLAGS=-mod=mod GOPROXY=off GOSUMDB=off GOTOOLCHAIN=local
Always pass -timeout 120s to go test.

The library is expected to satisfy the following 20 properties. Each of your bugs must break AT LEAST ONE of them (say which in the README):
---
{ptext}
---

Ideas ALREADY TAKEN by earlier seeded bugs (produce different ones - different code sites and different triggers). {wanted}
{chr(10).join(taken)}

---

Task: produce THREE different, independent changes to the library source (non-test .go files in {wt}) each of which BREAKS one of the properties, while
 (1) the library still compiles,
 (2) the existing test suite still passes completely:  cd {wt} && go test -vet=off -count=1 -timeout 120s . ./cmd/...   (do NOT use ./... once out/ exists: it would pick up out/*/demo_test.go as packages)
 (3) the change is small and looks like a plausible mistake or well-meant refactoring/optimisation by a maintainer (not sabotage with obvious markers; no comments announcing the bug),
 (4) the bug needs something SPECIFIC to manifest - a particular interleaving, a fault/disconnect at a particular point, a multi-step sequence of operations, an unusual input or configuration, or two cooperating sites that each look fine alone - i.e. ordinary use (a normal EHLO/MAIL/RCPT/DATA/QUIT session) would NOT expose it at once.
 The three changes should break different properties if possible, and touch different code. Agent number {i} of {n}: to spread out, prefer properties {prefs[(i-1) % len(prefs)]} (or their neighbours) but any is fine.

For each change i in {{1,2,3}} write into {wt}/out/m<i>/ :
  - patch.diff : output of `git diff` (relative to the worktree HEAD) containing ONLY that one change to non-test source files (apply cleanly with `git apply` at the repo root).
  - demo_test.go : a Go test file in package smtp (or smtp_test) with ONE test function named TestSeeded_{a}_m<i> which, when copied into the repo root, FAILS with the change applied and PASSES on the unchanged tree. It must be deterministic (or at least fail with high probability within a few seconds with the change, and never fail without it). Use only the standard library, the package itself and github.com/emersion/go-sasl.
  - README.md : 5-10 lines, first line `# {a} / m<i> - <one-line title>`: what the change does, which property (C-number) and clause it breaks, and exactly what is needed for it to manifest.
Procedure per change: make the edit, run the full suite (must pass), run your demo test (must fail), save `git diff` (excluding the demo test file and out/ directory) to patch.diff, then `git checkout -- .` (keep the out/ directory, it is untracked), copy the demo test in again and confirm it PASSES on the unchanged tree, then remove the demo test from the repo root again. Leave the worktree clean (only the untracked out/ directory).

Finally reply with a short summary (the three changes in one sentence each, and confirmation of the checks you ran). Do not spend time on anything else.
"""
    open(os.path.join(outdir, a + '.prompt.txt'), 'w').write(s)
print('wrote', n, 'prompts,', len(taken), 'taken ideas')
