#!/bin/bash
# tools/reseed.sh [ids...] : re-runs every stored seeded change (or the given ones) against the current checks:
# applies seeded/<id>/patch.diff to /repo, runs the quick check of its property, reverts, prints one line.
cd "$(dirname "$0")/.."
. ./env.sh
IDS="$*"; [ -z "$IDS" ] && IDS=$(ls seeded)
for id in $IDS; do
  P=$(grep -oE '"property": ?"C[0-9]+"' seeded/$id/meta.json | head -1 | grep -oE 'C[0-9]+'); [ -z "$P" ] && P=${id%%-*}
  [ -n "$(git -C /repo status --porcelain)" ] && { echo "/repo not clean"; exit 2; }
  touch /tmp/.verif-repo-busy
  if ! git -C /repo apply "$PWD/seeded/$id/patch.diff" 2>/dev/null; then echo "$id PATCH-DOES-NOT-APPLY"; rm -f /tmp/.verif-repo-busy; continue; fi
  OUT=$(./run.sh $P quick 2>&1); RC=$?
  git -C /repo checkout -q -- .; rm -f /tmp/.verif-repo-busy
  SIGS=$(echo "$OUT" | grep "^VIOLATION" | sed -E 's/.*sig=([^ ]+).*/\1/' | sort -u | head -4 | tr '\n' ' ')
  echo "$id exit=$RC $SIGS"
done
