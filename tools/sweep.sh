#!/bin/bash
# tools/sweep.sh <tier> <seed...> : runs every registered check at the given seeds and prints one line per run.
cd "$(dirname "$0")/.."
TIER="$1"; shift
for s in "$@"; do
  for p in $(./bin/vcheck list); do
    OUT=$(VERIF_SEED=$s ./run.sh $p $TIER 2>&1); RC=$?
    echo "seed=$s $p exit=$RC $(echo "$OUT" | grep -E '^SUMMARY' | sed -E 's/.*(evaluations=[0-9]+).*(violations=[0-9]+ known=[0-9]+ inconclusive=[0-9]+ races=[0-9]+ wall=[0-9.]+s).*/\1 \2/')"
    echo "$OUT" | grep -E '^(VIOLATION|BROKEN|INCONCLUSIVE|STALE)' | cut -c1-300 | head -5
  done
done
