// Package core is the case runner shared by all property checks: deterministic PRNG,
// parallel execution, counting of what was actually observed, violation collection.
package core

import (
	"encoding/json"
	"fmt"
	"hash/fnv"
	"os"
	"runtime"
	"runtime/debug"
	"sort"
	"sync"
	"sync/atomic"
	"time"
)

// Rand is splitmix64; streams are keyed so that case lists are value-determined.
type Rand struct{ s uint64 }

func NewRand(seed uint64, keys ...uint64) *Rand {
	r := &Rand{s: seed*0x9E3779B97F4A7C15 + 0x1234567}
	for _, k := range keys {
		r.s ^= k + 0x9E3779B97F4A7C15 + (r.s << 6) + (r.s >> 2)
		r.Uint64()
	}
	return r
}

func (r *Rand) Uint64() uint64 {
	r.s += 0x9E3779B97F4A7C15
	z := r.s
	z = (z ^ (z >> 30)) * 0xBF58476D1CE4E5B9
	z = (z ^ (z >> 27)) * 0x94D049BB133111EB
	return z ^ (z >> 31)
}

func (r *Rand) Intn(n int) int {
	if n <= 0 {
		return 0
	}
	return int(r.Uint64() % uint64(n))
}

func (r *Rand) Bool() bool { return r.Uint64()&1 == 1 }

// Chance returns true with probability num/den.
func (r *Rand) Chance(num, den int) bool { return r.Intn(den) < num }

func HashStr(s string) uint64 {
	h := fnv.New64a()
	h.Write([]byte(s))
	return h.Sum64()
}

// Violation is one refuting observation.
type Violation struct {
	Sig  string          `json:"sig"`
	Msg  string          `json:"msg"`
	Case json.RawMessage `json:"case,omitempty"`
	Log  []string        `json:"log,omitempty"`
}

// Result is what a child process reports to the parent.
type Result struct {
	Property       string           `json:"property"`
	Part           string           `json:"part"`
	Tier           string           `json:"tier"`
	Seed           uint64           `json:"seed"`
	Evaluations    int64            `json:"evaluations"`
	Distinct       int64            `json:"distinct_nontrivial"`
	Rule           string           `json:"rule"`
	Exhaustive     bool             `json:"exhaustive"`
	Counters       map[string]int64 `json:"counters"`
	Samples        []any            `json:"samples"`
	Violations     []Violation      `json:"violations"`
	ViolationCount map[string]int64 `json:"violation_count"`
	Inconclusive   int64            `json:"inconclusive"`
	InconclusiveEx []string         `json:"inconclusive_examples,omitempty"`
	Broken         []string         `json:"broken,omitempty"`
	Assumptions    []string         `json:"assumptions"`
	WallS          float64          `json:"wall_s"`
	Level          string           `json:"level"`
}

const nShards = 64

type Ctx struct {
	Prop    string
	Part    string
	Tier    string
	Seed    uint64
	Workers int

	evals   atomic.Int64
	inconcl atomic.Int64
	nviol   atomic.Int64
	skipped atomic.Int64

	shards [nShards]struct {
		mu sync.Mutex
		m  map[uint64]struct{}
	}

	mu         sync.Mutex
	counters   map[string]int64
	samples    []any
	sampleKeys map[string]int
	viols      []Violation
	violCount  map[string]int64
	inconEx    []string
	broken     []string

	Rule        string
	Exhaustive  bool
	Level       string
	Assumptions []string
	start       time.Time

	// KnownSigs are the signatures of open known findings (they do not count towards saturation).
	KnownSigs map[string]bool

	// Journal, when non-nil, receives one line per case before it is executed (crash attribution).
	Journal *os.File
}

func NewCtx(prop, part, tier string, seed uint64) *Ctx {
	c := &Ctx{Prop: prop, Part: part, Tier: tier, Seed: seed, Workers: runtime.GOMAXPROCS(0), Level: "exploration"}
	if c.Workers < 1 {
		c.Workers = 1
	}
	for i := range c.shards {
		c.shards[i].m = map[uint64]struct{}{}
	}
	c.counters = map[string]int64{}
	c.sampleKeys = map[string]int{}
	c.violCount = map[string]int64{}
	c.start = time.Now()
	return c
}

func (c *Ctx) Thorough() bool { return c.Tier == "thorough" }

// Eval counts one executed case; when nontrivial, key identifies the case for distinct counting.
func (c *Ctx) Eval(key string, nontrivial bool) {
	c.evals.Add(1)
	if !nontrivial {
		return
	}
	h := HashStr(key)
	s := &c.shards[h%nShards]
	s.mu.Lock()
	s.m[h] = struct{}{}
	s.mu.Unlock()
}

// Add bumps a named counter of observed things (backend events, replies parsed, octets compared ...).
func (c *Ctx) Add(name string, n int64) {
	c.mu.Lock()
	c.counters[name] += n
	c.mu.Unlock()
}

// Sample keeps up to perClass samples per class.
func (c *Ctx) Sample(class string, v any) {
	c.mu.Lock()
	if c.sampleKeys[class] < 2 && len(c.samples) < 24 {
		c.sampleKeys[class]++
		c.samples = append(c.samples, map[string]any{"class": class, "case": v})
	}
	c.mu.Unlock()
}

func (c *Ctx) WantSample(class string) bool {
	c.mu.Lock()
	defer c.mu.Unlock()
	return c.sampleKeys[class] < 2 && len(c.samples) < 24
}

// Violate records a violation with its signature; at most 5 detailed witnesses per signature are kept.
// Saturated reports that the run has already collected so many violations that executing the
// remaining cases cannot change its verdict (it only matters on a tree that breaks the property:
// hangs cost a watchdog period each).
func (c *Ctx) Saturated() bool { return c.nviol.Load() >= 300 }

func (c *Ctx) Violate(sig, msg string, cs any, log []string) {
	if !c.KnownSigs[sig] {
		c.nviol.Add(1) // listed known findings never saturate a run
	}
	raw, _ := json.Marshal(cs)
	c.mu.Lock()
	c.violCount[sig]++
	if c.violCount[sig] <= 5 && len(c.viols) < 200 {
		if len(log) > 120 {
			log = append(log[:120:120], fmt.Sprintf("... %d more", len(log)-120))
		}
		c.viols = append(c.viols, Violation{Sig: sig, Msg: msg, Case: raw, Log: log})
	}
	c.mu.Unlock()
}

func (c *Ctx) Inconclusive(msg string) {
	c.inconcl.Add(1)
	c.mu.Lock()
	if len(c.inconEx) < 10 {
		c.inconEx = append(c.inconEx, msg)
	}
	c.mu.Unlock()
}

// Broken records a defect of the harness itself (never a verdict about go-smtp).
func (c *Ctx) Broken(msg string) {
	c.mu.Lock()
	if len(c.broken) < 20 {
		c.broken = append(c.broken, msg)
	}
	c.mu.Unlock()
}

func (c *Ctx) Result() *Result {
	var distinct int64
	for i := range c.shards {
		c.shards[i].mu.Lock()
		distinct += int64(len(c.shards[i].m))
		c.shards[i].mu.Unlock()
	}
	c.mu.Lock()
	defer c.mu.Unlock()
	sort.SliceStable(c.viols, func(i, j int) bool { return c.viols[i].Sig < c.viols[j].Sig })
	return &Result{
		Property: c.Prop, Part: c.Part, Tier: c.Tier, Seed: c.Seed,
		Evaluations: c.evals.Load(), Distinct: distinct, Rule: c.Rule, Exhaustive: c.Exhaustive,
		Counters: c.withSkipped(), Samples: c.samples, Violations: c.viols, ViolationCount: c.violCount,
		Inconclusive: c.inconcl.Load(), InconclusiveEx: c.inconEx, Broken: c.broken,
		Assumptions: c.Assumptions, WallS: time.Since(c.start).Seconds(), Level: c.Level,
	}
}

// RunCases executes every generated case on Workers goroutines.
func RunCases[C any](ctx *Ctx, gen func(emit func(C)), exec func(ctx *Ctx, c C)) {
	ch := make(chan C, 4096)
	var wg sync.WaitGroup
	for w := 0; w < ctx.Workers; w++ {
		wg.Add(1)
		go func() {
			defer wg.Done()
			for cs := range ch {
				if ctx.Saturated() {
					ctx.skipped.Add(1)
					continue // the verdict of this run is already "violated": drain without executing
				}
				runOne(ctx, cs, exec)
			}
		}()
	}
	gen(func(cs C) { ch <- cs })
	close(ch)
	wg.Wait()
}

func runOne[C any](ctx *Ctx, cs C, exec func(ctx *Ctx, c C)) {
	defer func() {
		if p := recover(); p != nil {
			raw, _ := json.Marshal(cs)
			ctx.Broken(fmt.Sprintf("harness panic: %v\ncase=%s\n%s", p, raw, debug.Stack()))
		}
	}()
	exec(ctx, cs)
}

// ReplayCase decodes and executes a single case.
func ReplayCase[C any](ctx *Ctx, raw json.RawMessage, exec func(ctx *Ctx, c C)) error {
	var cs C
	if err := json.Unmarshal(raw, &cs); err != nil {
		return err
	}
	runOne(ctx, cs, exec)
	return nil
}

// ---------------------------------------------------------------------------------------------
// Small enumerators.

// Strings enumerates all strings over alphabet with length in [0, maxLen].
func Strings(alphabet []string, maxLen int, f func(parts []string)) {
	var rec func(cur []string)
	rec = func(cur []string) {
		f(cur)
		if len(cur) == maxLen {
			return
		}
		for _, a := range alphabet {
			rec(append(cur, a))
		}
	}
	rec(make([]string, 0, maxLen))
}

// Compositions enumerates all ways to write n as an ordered sum of k>=1 non-negative parts, k<=maxParts.
func Compositions(n, maxParts int, f func(parts []int)) {
	var rec func(rem, k int, cur []int)
	rec = func(rem, k int, cur []int) {
		if k == 1 {
			f(append(append([]int{}, cur...), rem))
			return
		}
		for i := 0; i <= rem; i++ {
			rec(rem-i, k-1, append(cur, i))
		}
	}
	for k := 1; k <= maxParts; k++ {
		rec(n, k, nil)
	}
}

// Cuts turns a bitmask over the n-1 inner positions of an n-octet string into cut offsets.
func Cuts(n int, mask uint64) []int {
	var out []int
	for i := 1; i < n; i++ {
		if mask&(1<<uint(i-1)) != 0 {
			out = append(out, i)
		}
	}
	return out
}

// Split cuts data at the (sorted, in-range) offsets.
func Split(data []byte, cuts []int) [][]byte {
	var out [][]byte
	prev := 0
	for _, c := range cuts {
		if c <= prev || c >= len(data) {
			continue
		}
		out = append(out, data[prev:c])
		prev = c
	}
	out = append(out, data[prev:])
	return out
}

// Permutations enumerates all permutations of 0..n-1.
func Permutations(n int, f func(p []int)) {
	p := make([]int, n)
	for i := range p {
		p[i] = i
	}
	var rec func(k int)
	rec = func(k int) {
		if k == n {
			f(append([]int{}, p...))
			return
		}
		for i := k; i < n; i++ {
			p[k], p[i] = p[i], p[k]
			rec(k + 1)
			p[k], p[i] = p[i], p[k]
		}
	}
	rec(0)
}

func (c *Ctx) withSkipped() map[string]int64 {
	if n := c.skipped.Load(); n > 0 {
		c.counters["cases_skipped_after_saturation"] = n
	}
	return c.counters
}
