// Package ref holds reference models written from the RFCs and the property statements,
// deliberately not from go-smtp's code.
package ref

import "bytes"

// Unstuff is RFC 5321 section 4.5.2 as a line splitter: the stream is cut at CRLF only; the
// first line consisting of a single '.' ends the message; one leading '.' is removed from every
// other line. It returns the message octets, the number of stream octets consumed (including
// the end marker) and whether the end marker was found.
func Unstuff(stream []byte) (body []byte, consumed int, complete bool) {
	pos := 0
	body = []byte{}
	for {
		i := bytes.Index(stream[pos:], []byte("\r\n"))
		if i < 0 {
			return body, pos, false
		}
		line := stream[pos : pos+i]
		pos += i + 2
		if len(line) == 1 && line[0] == '.' {
			return body, pos, true
		}
		if len(line) > 0 && line[0] == '.' {
			line = line[1:]
		}
		body = append(body, line...)
		body = append(body, '\r', '\n')
	}
}

// DotWriterNormalise is what a message written through the client must look like at the
// receiving backend (C16): bare LF becomes CRLF, a final CRLF is ensured; CR is assumed to
// occur only as part of CRLF in the input.
func DotWriterNormalise(body []byte) []byte {
	out := make([]byte, 0, len(body)+8)
	for i := 0; i < len(body); i++ {
		b := body[i]
		if b == '\n' && (i == 0 || body[i-1] != '\r') {
			out = append(out, '\r', '\n')
			continue
		}
		out = append(out, b)
	}
	if len(out) == 0 || !bytes.HasSuffix(out, []byte("\r\n")) {
		out = append(out, '\r', '\n')
	}
	return out
}
