package ref

import (
	"strings"
	"time"
)

// Verdict of the reference classifier for MAIL/RCPT lines.
type Verdict int

const (
	Unspecified Verdict = iota // the statement is silent or the reading is ambiguous: not judged
	Invalid                    // definitely invalid: must be refused with 5xx and never reach the backend
)

// ExtConf says which extensions the server has enabled.
type ExtConf struct {
	UTF8, RequireTLS, Binary, DSN, RRVS bool
}

const localSpecials = "()<>[]:;\\,\" \t"

// ClassifyLine classifies a complete command line ("MAIL FROM:..." / "RCPT TO:...") conservatively:
// it answers Invalid only for structural faults on which no reading yields one mailbox, or for
// parameters that are unknown, malformed or belong to a disabled extension.
func ClassifyLine(line string, conf ExtConf) Verdict {
	up := strings.ToUpper(line)
	var isMail bool
	var rest string
	switch {
	case strings.HasPrefix(up, "MAIL "):
		isMail = true
		rest = line[5:]
		if !strings.HasPrefix(strings.ToUpper(strings.TrimLeft(rest, " ")), "FROM:") {
			return Invalid
		}
		rest = strings.TrimLeft(rest, " ")[5:]
	case strings.HasPrefix(up, "RCPT "):
		rest = line[5:]
		if !strings.HasPrefix(strings.ToUpper(strings.TrimLeft(rest, " ")), "TO:") {
			return Invalid
		}
		rest = strings.TrimLeft(rest, " ")[3:]
	default:
		return Unspecified
	}
	for i := 0; i < len(rest); i++ {
		if rest[i] < 0x20 && rest[i] != '\t' || rest[i] == 0x7f {
			return Invalid // control octet anywhere in the arguments
		}
	}
	pv, after, glued := classifyPath(rest, isMail)
	if pv == Invalid {
		return Invalid
	}
	if glued {
		return Unspecified
	}
	av := classifyParams(after, isMail, conf)
	if av == Invalid {
		return Invalid
	}
	return Unspecified
}

// classifyPath returns Invalid for a definitely malformed path, else Unspecified together with
// the remainder of the line after the path; glued reports text directly attached to '>'.
func classifyPath(rest string, isMail bool) (v Verdict, after string, glued bool) {
	t := strings.TrimLeft(rest, " ")
	if strings.TrimSpace(t) == "" {
		return Invalid, "", false
	}
	if isMail && strings.HasPrefix(t, "<>") {
		after = t[2:]
		return Unspecified, after, after != "" && after[0] != ' '
	}
	pos := 0
	bracket := false
	if t[0] == '<' {
		bracket = true
		pos = 1
	}
	end := func() bool { return pos >= len(t) }
	// source route
	if !end() && t[pos] == '@' {
		i := strings.IndexByte(t[pos:], ':')
		if i < 0 {
			return Invalid, "", false
		}
		// the content of the (obsolete, ignorable) source route itself is not judged
		pos += i + 1
	}
	if end() {
		return Invalid, "", false
	}
	// local-part
	if t[pos] == '"' {
		pos++
		closed := false
		n := 0
		for !end() {
			ch := t[pos]
			if ch == '\\' {
				pos += 2
				n++
				continue
			}
			pos++
			if ch == '"' {
				closed = true
				break
			}
			n++
		}
		if !closed || pos > len(t) {
			return Invalid, "", false
		}
		_ = n // an empty quoted string is syntactically a local-part: not judged
		if end() || t[pos] != '@' {
			return Invalid, "", false
		}
	} else {
		start := pos
		for !end() && t[pos] != '@' {
			ch := t[pos]
			if strings.IndexByte(localSpecials, ch) >= 0 {
				// <postmaster> (RCPT) and similar domain-less forms are lenient territory
				if !isMail && bracket && ch == '>' && strings.EqualFold(t[start:pos], "postmaster") {
					return Unspecified, t[pos+1:], pos+1 < len(t) && t[pos+1] != ' '
				}
				return Invalid, "", false
			}
			pos++
		}
		if end() {
			return Invalid, "", false // no '@'
		}
		if pos == start {
			return Invalid, "", false // empty local-part
		}
	}
	pos++ // '@'
	dstart := pos
	for !end() {
		ch := t[pos]
		if ch == '>' || (!bracket && (ch == ' ' || ch == '\t')) {
			break
		}
		if ch == '@' || ch == ' ' || ch == '\t' || ch == '<' {
			return Invalid, "", false
		}
		pos++
	}
	if pos == dstart {
		return Invalid, "", false // empty domain
	}
	if bracket {
		if end() || t[pos] != '>' {
			return Invalid, "", false // unbalanced
		}
		pos++
	} else if !end() && t[pos] == '>' {
		return Invalid, "", false // '>' without '<'
	}
	after = t[pos:]
	return Unspecified, after, after != "" && after[0] != ' ' && after[0] != '\t'
}

func isXtext(s string) bool {
	for i := 0; i < len(s); i++ {
		ch := s[i]
		if ch == '+' {
			if i+2 >= len(s) || !isUpperHex(s[i+1]) || !isUpperHex(s[i+2]) {
				return false
			}
			i += 2
			continue
		}
		if ch < '!' || ch > '~' || ch == '=' {
			return false
		}
	}
	return true
}

// xtextDecode decodes a value that isXtext accepted.
func xtextDecode(s string) string {
	var b strings.Builder
	for i := 0; i < len(s); i++ {
		if s[i] == '+' && i+2 < len(s) {
			hv := func(c byte) byte {
				if c >= 'A' {
					return c - 'A' + 10
				}
				return c - '0'
			}
			b.WriteByte(hv(s[i+1])<<4 | hv(s[i+2]))
			i += 2
			continue
		}
		b.WriteByte(s[i])
	}
	return b.String()
}

func isUpperHex(b byte) bool { return b >= '0' && b <= '9' || b >= 'A' && b <= 'F' }

func classifyParams(s string, isMail bool, conf ExtConf) Verdict {
	unspec := false
	seen := map[string]bool{}
	for _, tok := range strings.Fields(s) {
		if strings.Count(tok, "=") >= 2 {
			return Invalid
		}
		key, val := tok, ""
		hasVal := false
		if i := strings.IndexByte(tok, '='); i >= 0 {
			key, val, hasVal = tok[:i], tok[i+1:], true
		}
		key = strings.ToUpper(key)
		if seen[key] {
			unspec = true
		}
		seen[key] = true
		bad := func(cond bool) bool { return cond }
		if isMail {
			switch key {
			case "SIZE":
				if !hasVal || val == "" || len(val) > 20 || strings.Trim(val, "0123456789") != "" {
					return Invalid
				}
				if len(val) > 18 {
					unspec = true
				}
			case "BODY":
				switch strings.ToUpper(val) {
				case "7BIT", "8BITMIME":
				case "BINARYMIME":
					if !conf.Binary {
						return Invalid
					}
				default:
					return Invalid
				}
			case "SMTPUTF8":
				if !conf.UTF8 {
					return Invalid
				}
				if hasVal {
					unspec = true
				}
			case "REQUIRETLS":
				if !conf.RequireTLS {
					return Invalid
				}
				if hasVal {
					unspec = true
				}
			case "RET":
				if !conf.DSN {
					return Invalid
				}
				if u := strings.ToUpper(val); u != "FULL" && u != "HDRS" {
					return Invalid
				}
			case "ENVID":
				if !conf.DSN {
					return Invalid
				}
				if bad(val == "" || !isXtext(val)) {
					return Invalid
				}
			case "AUTH":
				if val == "" || (val != "<>" && !isXtext(val)) {
					return Invalid
				}
				// the decoded value is "<>" or a mailbox: outside a quoted local-part a mailbox
				// contains no blank and no angle bracket
				if dec := xtextDecode(val); dec != "<>" && !strings.Contains(dec, "\"") && strings.ContainsAny(dec, " \t<>") {
					return Invalid
				}
			default:
				return Invalid
			}
		} else {
			switch key {
			case "NOTIFY":
				if !conf.DSN {
					return Invalid
				}
				if val == "" {
					return Invalid
				}
				items := strings.Split(strings.ToUpper(val), ",")
				dup := map[string]bool{}
				for _, it := range items {
					switch it {
					case "NEVER", "SUCCESS", "FAILURE", "DELAY":
					default:
						return Invalid
					}
					if dup[it] {
						return Invalid
					}
					dup[it] = true
				}
				if dup["NEVER"] && len(items) > 1 {
					return Invalid
				}
			case "ORCPT":
				if !conf.DSN {
					return Invalid
				}
				i := strings.IndexByte(val, ';')
				if i <= 0 || i == len(val)-1 {
					return Invalid
				}
				if strings.EqualFold(val[:i], "rfc822") {
					if !isXtext(val[i+1:]) {
						return Invalid
					}
				} else {
					unspec = true
				}
			case "RRVS":
				if !conf.RRVS {
					return Invalid
				}
				v := val
				if i := strings.IndexByte(v, ';'); i >= 0 {
					v = v[:i]
				}
				if _, err := time.Parse(time.RFC3339, v); err != nil {
					// be conservative: only clearly non-date values
					if len(v) < 10 || strings.Trim(v[:4], "0123456789") != "" {
						return Invalid
					}
					unspec = true
				}
			default:
				return Invalid
			}
		}
	}
	_ = unspec
	return Unspecified
}

// XtextEncode is the reference RFC 3461 xtext encoder (for 7-bit input).
func XtextEncode(s string) string {
	const hex = "0123456789ABCDEF"
	var b strings.Builder
	for i := 0; i < len(s); i++ {
		ch := s[i]
		if ch >= '!' && ch <= '~' && ch != '+' && ch != '=' {
			b.WriteByte(ch)
		} else {
			b.WriteByte('+')
			b.WriteByte(hex[ch>>4])
			b.WriteByte(hex[ch&15])
		}
	}
	return b.String()
}
