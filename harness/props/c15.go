package props

import (
	"encoding/json"
	"errors"
	"fmt"
	"strings"
	"time"

	smtp "github.com/emersion/go-smtp"

	"verifharness/core"
	"verifharness/wire"
)

// C15 — the client writes one command line per call and only negotiated parameters.

var c15Exts = []string{"8BITMIME", "SIZE", "REQUIRETLS", "SMTPUTF8", "DSN", "AUTH", "RRVS"}

type c15Case struct {
	Kind string `json:"kind"` // params | hostile

	AdvA  int `json:"adv_a"` // advertised subset before Reset (bit mask over c15Exts)
	AdvB  int `json:"adv_b"` // advertised subset after Reset
	MailM int `json:"mail_m"`
	RcptM int `json:"rcpt_m"`

	HeloOnly bool `json:"helo_only"` // the server refuses EHLO (502) and accepts HELO: no extension at all is negotiated

	Arg  string `json:"arg"` // hostile: which argument
	Val  []byte `json:"val"` // hostile value
	ValQ string `json:"val_q"`
}

func init() {
	register(&Prop{ID: "C15", Run: c15Run, Replay: func(ctx *core.Ctx, raw json.RawMessage) error {
		return core.ReplayCase(ctx, raw, c15Exec)
	}})
}

var c15Args = []string{"Hello", "Verify", "MailFrom", "RcptTo", "Body", "EnvelopeID", "Auth", "ORcptRFC822", "ORcptUTF8", "Return", "Notify", "AddrType", "SendMailFrom", "SendMailTo"}

func c15Run(ctx *core.Ctx) {
	maxLen := 3
	if ctx.Thorough() {
		maxLen = 5
	}
	ctx.Rule = fmt.Sprintf("scripted server advertising each of the 2^7 subsets of {8BITMIME,SIZE,REQUIRETLS,SMTPUTF8,DSN,AUTH,RRVS} (a different subset after Reset) x MAIL option subsets (2^6) and RCPT option subsets (2^3) (pairwise-sampled in quick, full product in thorough); all strings of length <=%d over {CR,LF,NUL,SP,'<','>','a'} in every string-typed argument (%v) incl. out-of-range enum values; the raw client->server tap is segmented per API call. Non-trivial: every case; distinct by case.", maxLen, c15Args)
	ctx.Assumptions = []string{"each protocol step of the client is one Write on the transport (textproto.Cmd flushes per command)", "the message body written through Data() is not a command line"}
	core.RunCases(ctx, func(emit func(c15Case)) {
		for a := 0; a < 128; a++ {
			for mm := 0; mm < 64; mm++ {
				if !ctx.Thorough() && (a*31+mm*7)%4 != 0 && !(mm == 63 || mm == 0 || a == 0 || a == 127) {
					continue
				}
				emit(c15Case{Kind: "params", AdvA: a, AdvB: (a*37 + mm*11 + 5) % 128, MailM: mm, RcptM: (a + mm) % 8})
			}
		}
		for mm := 0; mm < 64; mm++ {
			emit(c15Case{Kind: "params", AdvA: 0, AdvB: 0, MailM: mm, RcptM: mm % 8, HeloOnly: true})
		}
		alpha := []string{"\r", "\n", "\x00", " ", "<", ">", "a"}
		core.Strings(alpha, maxLen, func(parts []string) {
			v := []byte(strings.Join(parts, ""))
			for _, arg := range c15Args {
				emit(c15Case{Kind: "hostile", Arg: arg, Val: v, ValQ: fmt.Sprintf("%q", v), AdvA: 127})
			}
		})
		for _, v := range []string{"a\r\nRSET", "x@y>\r\nRCPT TO:<evil@x.test", "a\nb", "a\rb", "FULL\r\nX", "é\r\n", strings.Repeat("a", 3000)} {
			for _, arg := range c15Args {
				emit(c15Case{Kind: "hostile", Arg: arg, Val: []byte(v), ValQ: fmt.Sprintf("%.40q", v), AdvA: 127})
			}
		}
	}, c15Exec)
}

// c15Fake answers everything positively and advertises adv(); it switches to the second
// subset after the first RSET.
func c15Fake(advA, advB int) func(f *wire.Fake) { return c15FakeOpt(advA, advB, false) }

func c15FakeOpt(advA, advB int, heloOnly bool) func(f *wire.Fake) {
	return func(f *wire.Fake) {
		f.Write("220 fake ESMTP\r\n")
		cur := advA
		inData := false
		for {
			l, ok := f.ReadLine()
			if !ok {
				return
			}
			if inData {
				if l == "." {
					inData = false
					f.Write("250 2.0.0 queued\r\n")
				}
				continue
			}
			up := strings.ToUpper(l)
			switch {
			case heloOnly && strings.HasPrefix(up, "EHLO"):
				f.Write("502 5.5.1 EHLO not implemented\r\n")
			case strings.HasPrefix(up, "HELO"):
				f.Write("250 fake.test\r\n")
			case strings.HasPrefix(up, "EHLO"), strings.HasPrefix(up, "LHLO"):
				lines := []string{"fake.test"}
				for i, e := range c15Exts {
					if cur&(1<<uint(i)) != 0 {
						switch e {
						case "AUTH":
							e = "AUTH PLAIN"
						case "SIZE":
							e = "SIZE 100000"
						}
						lines = append(lines, e)
					}
				}
				for i, ln := range lines {
					sep := "-"
					if i == len(lines)-1 {
						sep = " "
					}
					f.Write("250" + sep + ln + "\r\n")
				}
			case up == "RSET":
				cur = advB
				f.Write("250 2.0.0 ok\r\n")
			case up == "DATA":
				f.Write("354 go\r\n")
				inData = true
			case up == "QUIT":
				f.Write("221 2.0.0 bye\r\n")
				return
			case strings.HasPrefix(up, "VRFY"):
				f.Write("250 2.0.0 ok\r\n")
			default:
				f.Write("250 2.0.0 ok\r\n")
			}
		}
	}
}

// c15Segments returns the client->server segments written since mark.
func c15Segments(f *wire.Fake, mark int) []string {
	var out []string
	for _, e := range f.Log.Events() {
		if e.Seq > mark && e.Kind == "c2s" {
			out = append(out, e.A)
		}
	}
	return out
}

// c15LineFault checks that a segment is exactly one CRLF-terminated line.
func c15LineFault(seg string) string {
	if !strings.HasSuffix(seg, "\r\n") {
		return "segment does not end in CRLF"
	}
	body := seg[:len(seg)-2]
	if strings.ContainsAny(body, "\r\n") {
		return "segment contains more than one line (or a bare CR/LF)"
	}
	return ""
}

var c15ParamExt = map[string]string{"BODY": "8BITMIME", "SIZE": "SIZE", "REQUIRETLS": "REQUIRETLS", "SMTPUTF8": "SMTPUTF8", "RET": "DSN", "ENVID": "DSN", "AUTH": "AUTH", "NOTIFY": "DSN", "ORCPT": "DSN", "RRVS": "RRVS"}

func c15Advertised(mask int, ext string) bool {
	for i, e := range c15Exts {
		if e == ext {
			return mask&(1<<uint(i)) != 0
		}
	}
	return false
}

// c15ParamFault checks the parameters of a MAIL/RCPT line against the advertised set.
func c15ParamFault(line string, adv int) string {
	i := strings.IndexByte(line, '>')
	if i < 0 {
		return ""
	}
	for _, tok := range strings.Fields(line[i+1:]) {
		key := strings.ToUpper(tok)
		if j := strings.IndexByte(key, '='); j >= 0 {
			key = key[:j]
		}
		ext, ok := c15ParamExt[key]
		if !ok {
			return fmt.Sprintf("unknown parameter %q", tok)
		}
		if key == "BODY" {
			// the scripted server never offers BINARYMIME; other values are not BODY values at all
			switch strings.ToUpper(tok) {
			case "BODY=7BIT", "BODY=8BITMIME":
			default:
				return fmt.Sprintf("parameter %q: BINARYMIME is not in the EHLO reply / not a body type", tok)
			}
		}
		if !c15Advertised(adv, ext) {
			return fmt.Sprintf("parameter %q although %s is not in the most recent EHLO reply", tok, ext)
		}
	}
	return ""
}

func c15Exec(ctx *core.Ctx, c c15Case) {
	if c.Kind == "hostile" {
		c15Hostile(ctx, c)
		return
	}
	ctx.Eval(fmt.Sprintf("params|%d|%d|%d|%d|%v", c.AdvA, c.AdvB, c.MailM, c.RcptM, c.HeloOnly), true)
	f := wire.NewFake(c15FakeOpt(c.AdvA, c.AdvB, c.HeloOnly))
	cl := smtp.NewClient(f.Client)
	defer func() { cl.Close(); f.Close(); f.Wait() }()
	fail := func(sig, msg string) {
		ctx.Violate(sig, msg+fmt.Sprintf(" [advA=%07b advB=%07b mailM=%06b rcptM=%03b exts=%v]", c.AdvA, c.AdvB, c.MailM, c.RcptM, c15Exts), c, f.Log.Strings(60))
	}
	mkMail := func() *smtp.MailOptions {
		o := &smtp.MailOptions{}
		// the body type asked for rotates through every value; whatever the client makes of it
		// has to stay inside what the server offered
		o.Body = []smtp.BodyType{"", smtp.Body7Bit, smtp.Body8BitMIME, smtp.BodyBinaryMIME}[(c.AdvA+c.MailM)%4]
		if c.MailM&1 != 0 {
			o.Size = 4242
		}
		if c.MailM&2 != 0 {
			o.RequireTLS = true
		}
		if c.MailM&4 != 0 {
			o.UTF8 = true
		}
		if c.MailM&8 != 0 {
			o.Return = smtp.DSNReturnHeaders
		}
		if c.MailM&16 != 0 {
			o.EnvelopeID = "env-15"
		}
		if c.MailM&32 != 0 {
			a := "auth15@x.test"
			o.Auth = &a
		}
		return o
	}
	mkRcpt := func() *smtp.RcptOptions {
		o := &smtp.RcptOptions{}
		if c.RcptM&1 != 0 {
			o.Notify = []smtp.DSNNotify{smtp.DSNNotifyFailure}
		}
		if c.RcptM&2 != 0 {
			o.OriginalRecipientType, o.OriginalRecipient = smtp.DSNAddressTypeRFC822, "orig@x.test"
		}
		if c.RcptM&4 != 0 {
			o.RequireRecipientValidSince = time.Date(2020, 1, 2, 3, 4, 5, 0, time.UTC)
		}
		return o
	}
	for round, adv := range []int{c.AdvA, c.AdvB} {
		mark := f.Log.Len()
		err := cl.Mail("s15@x.test", mkMail())
		segs := c15Segments(f, mark)
		ctx.Add("segments_checked", int64(len(segs)))
		needLocal := (c.MailM&2 != 0 && !c15Advertised(adv, "REQUIRETLS")) || (c.MailM&4 != 0 && !c15Advertised(adv, "SMTPUTF8"))
		var se *smtp.SMTPError
		local := err != nil && !errors.As(err, &se)
		mailLine := ""
		for _, s := range segs {
			if flt := c15LineFault(s); flt != "" {
				fail("C15:not-one-line", fmt.Sprintf("Mail wrote %q: %s", s, flt))
				return
			}
			if strings.HasPrefix(strings.ToUpper(s), "MAIL") {
				mailLine = strings.TrimRight(s, "\r\n")
			}
		}
		if needLocal {
			if !local {
				fail("C15:unsupported-extension-silently-dropped", fmt.Sprintf("round %d: REQUIRETLS/SMTPUTF8 was requested, the server does not offer it, yet Mail returned %v and wrote %q", round, err, mailLine))
				return
			}
			if mailLine != "" {
				fail("C15:local-error-but-written", fmt.Sprintf("round %d: Mail returned the local error %v but wrote %q", round, err, mailLine))
				return
			}
		} else {
			if err != nil {
				fail("C15:mail-failed", fmt.Sprintf("round %d: Mail failed: %v", round, err))
				return
			}
			if flt := c15ParamFault(mailLine, adv); flt != "" {
				fail("C15:parameter-not-negotiated", fmt.Sprintf("round %d: %q: %s", round, mailLine, flt))
				return
			}
			mark = f.Log.Len()
			rerr := cl.Rcpt("r15@x.test", mkRcpt())
			for _, s := range c15Segments(f, mark) {
				if flt := c15LineFault(s); flt != "" {
					fail("C15:not-one-line", fmt.Sprintf("Rcpt wrote %q: %s", s, flt))
					return
				}
				if flt := c15ParamFault(strings.TrimRight(s, "\r\n"), adv); flt != "" {
					fail("C15:parameter-not-negotiated", fmt.Sprintf("round %d: %q: %s", round, s, flt))
					return
				}
			}
			if rerr != nil {
				fail("C15:rcpt-failed", fmt.Sprintf("round %d: Rcpt failed: %v", round, rerr))
				return
			}
		}
		if round == 0 {
			if err := cl.Reset(); err != nil {
				fail("C15:reset-failed", err.Error())
				return
			}
		}
	}
	if ctx.WantSample(fmt.Sprintf("params/%d", c.AdvA%4)) {
		ctx.Sample(fmt.Sprintf("params/%d", c.AdvA%4), map[string]any{"advertised_first": fmt.Sprintf("%07b", c.AdvA), "advertised_after_reset": fmt.Sprintf("%07b", c.AdvB), "mail_option_mask": c.MailM, "rcpt_option_mask": c.RcptM, "lines_received": f.Received()})
	}
}

func c15Hostile(ctx *core.Ctx, c c15Case) {
	ctx.Eval(fmt.Sprintf("hostile|%s|%q", c.Arg, c.Val), true)
	f := wire.NewFake(c15Fake(127, 127))
	cl := smtp.NewClient(f.Client)
	defer func() { cl.Close(); f.Close(); f.Wait() }()
	v := string(c.Val)
	fail := func(sig, msg string) {
		ctx.Violate(sig, msg+fmt.Sprintf(" [arg=%s value=%q]", c.Arg, c.Val), c, f.Log.Strings(40))
	}
	// a neutral first step so that the implicit EHLO is out of the way (except for Hello itself)
	if c.Arg != "Hello" {
		if err := cl.Noop(); err != nil {
			fail("C15:setup", err.Error())
			return
		}
	}
	needsMail := c.Arg == "RcptTo" || c.Arg == "ORcptRFC822" || c.Arg == "ORcptUTF8" || c.Arg == "Notify" || c.Arg == "AddrType"
	if needsMail {
		if err := cl.Mail("s@x.test", nil); err != nil {
			fail("C15:setup", err.Error())
			return
		}
	}
	mark := f.Log.Len()
	var err error
	switch c.Arg {
	case "Hello":
		err = cl.Hello(v)
	case "Verify":
		err = cl.Verify(v)
	case "MailFrom":
		err = cl.Mail(v, nil)
	case "RcptTo":
		err = cl.Rcpt(v, nil)
	case "Body":
		err = cl.Mail("s@x.test", &smtp.MailOptions{Body: smtp.BodyType(v)})
	case "EnvelopeID":
		err = cl.Mail("s@x.test", &smtp.MailOptions{EnvelopeID: v})
	case "Auth":
		err = cl.Mail("s@x.test", &smtp.MailOptions{Auth: &v})
	case "Return":
		err = cl.Mail("s@x.test", &smtp.MailOptions{Return: smtp.DSNReturn(v)})
	case "ORcptRFC822":
		err = cl.Rcpt("r@x.test", &smtp.RcptOptions{OriginalRecipientType: smtp.DSNAddressTypeRFC822, OriginalRecipient: v})
	case "ORcptUTF8":
		err = cl.Rcpt("r@x.test", &smtp.RcptOptions{OriginalRecipientType: smtp.DSNAddressTypeUTF8, OriginalRecipient: v})
	case "Notify":
		err = cl.Rcpt("r@x.test", &smtp.RcptOptions{Notify: []smtp.DSNNotify{smtp.DSNNotify(v)}})
	case "AddrType":
		err = cl.Rcpt("r@x.test", &smtp.RcptOptions{OriginalRecipientType: smtp.DSNAddressType(v), OriginalRecipient: "o@x.test"})
	case "SendMailFrom":
		err = cl.SendMail(v, []string{"r@x.test"}, strings.NewReader("body\r\n"))
	case "SendMailTo":
		err = cl.SendMail("s@x.test", []string{"ok@x.test", v}, strings.NewReader("body\r\n"))
	}
	segs := c15Segments(f, mark)
	// follow-up command: a value that was refused locally must not linger and be written later
	mark2 := f.Log.Len()
	cl.Noop()
	for _, s := range c15Segments(f, mark2) {
		if flt := c15LineFault(s); flt != "" {
			fail("C15:not-one-line", fmt.Sprintf("the call after %s(%q) wrote %q: %s", c.Arg, c.Val, s, flt))
			return
		}
	}
	ctx.Add("segments_checked", int64(len(segs)))
	var se *smtp.SMTPError
	local := err != nil && !errors.As(err, &se)
	inBody := false
	for _, s := range segs {
		if inBody {
			if strings.HasSuffix(s, ".\r\n") {
				inBody = false
			}
			continue
		}
		if flt := c15LineFault(s); flt != "" {
			fail("C15:not-one-line", fmt.Sprintf("%s wrote %q: %s", c.Arg, s, flt))
			return
		}
		if strings.HasPrefix(s, "DATA") {
			inBody = true
		}
		if c.Arg == "Body" && strings.HasPrefix(strings.ToUpper(s), "MAIL") {
			if flt := c15ParamFault(strings.TrimRight(s, "\r\n"), c.AdvA); flt != "" {
				fail("C15:parameter-not-negotiated", fmt.Sprintf("Mail with Body=%q wrote %q: %s", c.Val, s, flt))
				return
			}
		}
	}
	if local && len(segs) > 0 && !strings.HasPrefix(c.Arg, "SendMail") {
		fail("C15:local-error-but-written", fmt.Sprintf("%s returned the local error %v but wrote %q", c.Arg, err, segs))
		return
	}
	if ctx.WantSample("hostile/" + c.Arg) {
		ctx.Sample("hostile/"+c.Arg, map[string]any{"arg": c.Arg, "value": fmt.Sprintf("%q", c.Val), "error": fmt.Sprint(err), "written": segs})
	}
}
