package props

import (
	"encoding/json"
	"fmt"
	"sort"
	"strings"

	"github.com/emersion/go-sasl"
	smtp "github.com/emersion/go-smtp"

	"verifharness/core"
	"verifharness/rec"
	"verifharness/wire"
)

// C12 — EHLO advertises exactly what the configuration enables, and honours it.

type c12Case struct {
	UTF8, ReqTLS, Binary, DSN, RRVS bool
	Size                            int64
	MaxRcpt                         int
	TLS                             string // none | available | active | active-noconfig (TLS listener handed to Serve, Server.TLSConfig nil)
	Insecure                        bool
	AuthBackend                     bool
	LMTP                            bool
	Fresh                           bool // thorough: each probe on a fresh connection
	Multi                           string // "" | seq | overlap-plain | overlap-tls: several connections of ONE server whose sessions offer different SASL mechanisms, one after the other / with a second greeting answered while the first one is still being processed
}

func init() {
	register(&Prop{ID: "C12", Run: c12Run, Replay: func(ctx *core.Ctx, raw json.RawMessage) error {
		return core.ReplayCase(ctx, raw, c12Exec)
	}})
}

func c12Run(ctx *core.Ctx) {
	ctx.Rule = "the complete configuration space: 5 extension flags x MaxMessageBytes {0, 1000} x MaxRecipients {0, 2} x TLS {none, available, active (implicit TLS), active with Server.TLSConfig unset (TLS listener handed to Serve)} (half of the TLS configurations supply the certificate only through GetCertificate) x AllowInsecureAuth x backend {auth-capable, not} x {SMTP, LMTP} = 3072 configurations of the statement plus 1024 for the fourth TLS state; for each: EHLO/LHLO capability set compared (order-free, exact arguments) with a reference function written from the statement, HELO must list none, then one probe per extension (parameter accepted iff enabled, 504 iff disabled), STARTTLS, AUTH, SIZE=n+1, RCPTMAX and BDAT probes; after a successful AUTH, after a successful STARTTLS and after a STARTTLS whose handshake failed the capability set is checked again for the state the connection is then in. Non-trivial: every configuration; distinct by configuration."
	ctx.Exhaustive = true
	ctx.Assumptions = []string{"AUTH= MAIL parameter on servers not advertising AUTH is not judged", "REQUIRETLS parameter on a plaintext connection of a server that enables it is not judged"}
	core.RunCases(ctx, func(emit func(c12Case)) {
		for m := 0; m < 32; m++ {
			for _, size := range []int64{0, 1000} {
				for _, mr := range []int{0, 2} {
					for _, tls := range []string{"none", "available", "active", "active-noconfig"} {
						for _, ins := range []bool{false, true} {
							for _, ab := range []bool{false, true} {
								for _, lm := range []bool{false, true} {
									c := c12Case{UTF8: m&1 != 0, ReqTLS: m&2 != 0, Binary: m&4 != 0, DSN: m&8 != 0, RRVS: m&16 != 0,
										Size: size, MaxRcpt: mr, TLS: tls, Insecure: ins, AuthBackend: ab, LMTP: lm}
									emit(c)
									if ctx.Thorough() {
										c.Fresh = true
										emit(c)
									}
								}
							}
						}
					}
				}
			}
		}
		// several connections of one server: what a connection is told depends on its own state and
		// its own session, not on the connections before it or beside it
		for m := 0; m < 32; m++ {
			for _, lm := range []bool{false, true} {
				for _, multi := range []string{"seq", "overlap-plain", "overlap-tls"} {
					emit(c12Case{UTF8: m&1 != 0, ReqTLS: m&2 != 0, Binary: m&4 != 0, DSN: m&8 != 0, RRVS: m&16 != 0, Size: []int64{0, 1000}[m%2], MaxRcpt: []int{0, 2}[(m/2)%2],
						TLS: "available", Insecure: true, AuthBackend: true, LMTP: lm, Multi: multi})
				}
			}
		}
	}, c12Exec)
}

// c12Mechs is the SASL mechanism list offered by the n-th session of a server in the
// multi-connection cases.
func c12Mechs(sess int) []string {
	return [][]string{{"VERIF", "OTHER"}, {"VERIF"}, {"THIRD", "VERIF", "FOURTH"}}[sess%3]
}

// c12Multi: several connections of one server (STARTTLS available, AUTH allowed everywhere, every
// session offering a different mechanism list). "seq": three connections one after the other, the
// second one upgraded with STARTTLS and greeted again. "overlap-*": the greeting of connection A
// is held inside AuthMechanisms while connection B (plaintext / implicit TLS) is greeted and
// answered; then A's answer is completed. Every reply must be the one the reference function gives
// for that connection's own state and that session's own mechanism list.
func c12Multi(ctx *core.Ctx, c c12Case) {
	if strings.HasPrefix(c.Multi, "overlap") && gaveUp("c12overlap") {
		ctx.Add("cases_skipped_after_an_established_hang", 1)
		return
	}
	ctx.Eval(fmt.Sprintf("%+v", c), true)
	rig := wire.NewRig(rec.Auth, func(s *smtp.Server) {
		s.LMTP = c.LMTP
		s.EnableSMTPUTF8, s.EnableREQUIRETLS, s.EnableBINARYMIME, s.EnableDSN, s.EnableRRVS = c.UTF8, c.ReqTLS, c.Binary, c.DSN, c.RRVS
		s.MaxMessageBytes = c.Size
		s.MaxRecipients = c.MaxRcpt
		s.AllowInsecureAuth = true
		s.TLSConfig = wire.ServerTLS()
	})
	gate := rec.NewGate()
	defer gate.OpenAll()
	parkFirst := strings.HasPrefix(c.Multi, "overlap")
	rig.BE.H.AuthMechs = func(sess int) []string {
		if parkFirst && sess == 1 {
			gate.Wait("mechs")
		}
		return c12Mechs(sess)
	}
	rig.BE.H.Auth = func(sess int, mech string) (sasl.Server, error) { return &verifMech{}, nil }
	hello := "EHLO"
	if c.LMTP {
		hello = "LHLO"
	}
	var all []wire.Reply
	var peers []*wire.Peer
	failed := false
	fail := func(sig, msg string) {
		if failed {
			return
		}
		failed = true
		ctx.Violate(sig, msg+fmt.Sprintf(" [%+v]", c), c, witness(rig.Log, all))
	}
	finish := func() {
		gate.OpenAll()
		for _, p := range peers {
			p.Close()
		}
		rig.Finish()
	}
	lastSession := func() int {
		id := 0
		for _, e := range rig.Log.Events() {
			if e.Kind == "NewSession" && e.Ph == "b" && e.Sess > id {
				id = e.Sess
			}
		}
		return id
	}
	judge := func(who string, r wire.Reply, sess int, tlsActive bool) {
		if r.Code != 250 || len(r.Lines) == 0 {
			fail("C12:ehlo-refused", fmt.Sprintf("%s: %s answered %s", who, hello, r))
			return
		}
		norm := func(in []string) []string {
			out := append([]string{}, in...)
			for i, g := range out {
				if strings.HasPrefix(g, "AUTH ") {
					m := strings.Fields(g)[1:]
					sort.Strings(m)
					out[i] = "AUTH " + strings.Join(m, " ")
				}
			}
			sort.Strings(out)
			return out
		}
		got := norm(r.Lines[1:])
		var want []string
		for _, w := range c12Caps(c, tlsActive) {
			if strings.HasPrefix(w, "AUTH ") {
				w = "AUTH " + strings.Join(c12Mechs(sess), " ")
			}
			want = append(want, w)
		}
		want = norm(want)
		ctx.Add("capability_sets_compared", 1)
		ctx.Add("capability_sets_compared_with_several_connections_on_one_server", 1)
		if strings.Join(got, "|") != strings.Join(want, "|") {
			fail("C12:capabilities-depend-on-other-connections", fmt.Sprintf("%s (session %d, tls active=%v) is told %v; its own state and session give %v", who, sess, tlsActive, got, want))
		}
	}
	greetOn := func(p *wire.Peer) bool {
		g, err := p.ReadReply()
		all = append(all, g)
		return err == nil && g.Code == 220
	}
	ehlo := func(p *wire.Peer, name string) wire.Reply {
		p.SendStr(hello + " " + name + "\r\n")
		rs, _ := p.ReadUntilStall()
		all = append(all, rs...)
		if len(rs) == 0 {
			return wire.Reply{}
		}
		return rs[len(rs)-1]
	}
	if c.Multi == "seq" {
		for k := 0; k < 3 && !failed; k++ {
			p := rig.Dial()
			peers = append(peers, p)
			if !greetOn(p) {
				fail("C12:greeting", fmt.Sprintf("connection %d was not greeted", k))
				break
			}
			r := ehlo(p, fmt.Sprintf("c%d.test", k))
			judge(fmt.Sprintf("connection %d", k), r, lastSession(), false)
			if k == 1 && !failed {
				p.SendStr("STARTTLS\r\n")
				if sr, err := p.ReadReply(); err != nil || sr.Code != 220 {
					fail("C12:starttls", fmt.Sprintf("STARTTLS answered %s (%v)", sr, err))
					break
				}
				if err := p.StartTLSClient(); err != nil {
					ctx.Inconclusive("C12 multi: STARTTLS handshake failed: " + err.Error())
					finish()
					return
				}
				p.Raw.WaitPeerIdle(wire.Watchdog)
				r := ehlo(p, "c1-tls.test")
				judge("connection 1 inside TLS", r, lastSession(), true)
			}
			if k == 0 {
				p.SendStr("QUIT\r\n")
				p.ReadAll()
			}
		}
		finish()
	} else {
		a := rig.Dial()
		peers = append(peers, a)
		if !greetOn(a) {
			fail("C12:greeting", "connection A was not greeted")
			finish()
			return
		}
		a.SendStr(hello + " a.test\r\n")
		if !gate.WaitParked("mechs") {
			finish()
			ctx.Inconclusive("C12 multi: AuthMechanisms was not reached by the first greeting")
			return
		}
		// B is greeted and answered while A's greeting is still being processed
		var b *wire.Peer
		bTLS := c.Multi == "overlap-tls"
		if bTLS {
			var err error
			b, err = rig.DialTLS()
			peers = append(peers, b)
			if err != nil {
				finish()
				ctx.Inconclusive("C12 multi: implicit TLS handshake failed: " + err.Error())
				return
			}
		} else {
			b = rig.Dial()
			peers = append(peers, b)
		}
		if !greetOn(b) {
			fail("C12:greeting", "connection B was not greeted")
			finish()
			return
		}
		rb := ehlo(b, "b.test")
		if rb.Code == 0 {
			giveUp("c12overlap") // B is not answered while A's greeting is in progress: every such case costs a watchdog period
		}
		judge("connection B (greeted while A's greeting is in progress)", rb, 2, bTLS)
		gate.Open("mechs")
		ra, _ := a.ReadUntilStall()
		all = append(all, ra...)
		if len(ra) == 0 {
			fail("C12:ehlo-refused", "connection A got no reply to its greeting")
		} else {
			judge("connection A (its greeting was in progress while B was answered)", ra[len(ra)-1], 1, false)
		}
		finish()
	}
	if !failed && ctx.WantSample("multi/"+c.Multi) {
		ctx.Sample("multi/"+c.Multi, map[string]any{"mode": c.Multi, "lmtp": c.LMTP, "replies": len(all)})
	}
}

// c12Caps is the reference capability function.
func c12Caps(c c12Case, tlsActive bool) []string {
	caps := []string{"PIPELINING", "8BITMIME", "ENHANCEDSTATUSCODES", "CHUNKING"}
	if (c.TLS == "available" || c.TLS == "active") && !tlsActive {
		caps = append(caps, "STARTTLS")
	}
	if (tlsActive || c.Insecure) && c.AuthBackend {
		caps = append(caps, "AUTH VERIF OTHER")
	}
	if c.UTF8 {
		caps = append(caps, "SMTPUTF8")
	}
	if c.ReqTLS && tlsActive {
		caps = append(caps, "REQUIRETLS")
	}
	if c.Binary {
		caps = append(caps, "BINARYMIME")
	}
	if c.DSN {
		caps = append(caps, "DSN")
	}
	if c.Size > 0 {
		caps = append(caps, fmt.Sprintf("SIZE %d", c.Size))
	} else {
		caps = append(caps, "SIZE")
	}
	if c.MaxRcpt > 0 {
		caps = append(caps, fmt.Sprintf("LIMITS RCPTMAX=%d", c.MaxRcpt))
	}
	if c.RRVS {
		caps = append(caps, "RRVS")
	}
	sort.Strings(caps)
	return caps
}

func c12Exec(ctx *core.Ctx, c c12Case) {
	if c.Multi != "" {
		c12Multi(ctx, c)
		return
	}
	ctx.Eval(fmt.Sprintf("%+v", c), true)
	mk := func() *wire.Rig {
		kind := rec.Plain
		if c.AuthBackend {
			kind = rec.Auth
		}
		rig := wire.NewRig(kind, func(s *smtp.Server) {
			s.LMTP = c.LMTP
			s.EnableSMTPUTF8, s.EnableREQUIRETLS, s.EnableBINARYMIME, s.EnableDSN, s.EnableRRVS = c.UTF8, c.ReqTLS, c.Binary, c.DSN, c.RRVS
			s.MaxMessageBytes = c.Size
			s.MaxRecipients = c.MaxRcpt
			s.AllowInsecureAuth = c.Insecure
			if c.TLS == "available" || c.TLS == "active" {
				s.TLSConfig = wire.ServerTLS()
				if c.UTF8 != c.DSN {
					// half of the TLS configurations supply their certificate only through the
					// GetCertificate callback
					s.TLSConfig = wire.ServerTLSDynamic()
				}
			}
		})
		rig.BE.H.AuthMechs = func(int) []string { return []string{"VERIF", "OTHER"} }
		rig.BE.H.Auth = func(sess int, mech string) (sasl.Server, error) { return &verifMech{}, nil }
		return rig
	}
	hello := "EHLO"
	if c.LMTP {
		hello = "LHLO"
	}
	var rig *wire.Rig
	var p *wire.Peer
	var all []wire.Reply
	tlsActive := strings.HasPrefix(c.TLS, "active")
	open := func() bool {
		rig = mk()
		if strings.HasPrefix(c.TLS, "active") {
			var err error
			p, err = rig.DialTLS()
			if err != nil {
				ctx.Inconclusive("C12 implicit TLS handshake failed: " + err.Error())
				p.Close()
				rig.Finish()
				return false
			}
		} else {
			p = rig.Dial()
		}
		tlsActive = strings.HasPrefix(c.TLS, "active")
		g, err := p.ReadReply()
		all = append(all, g)
		return err == nil
	}
	closeConn := func() {
		p.Close()
		rig.Finish()
	}
	failed := false
	fail := func(sig, msg string) {
		failed = true
		ctx.Violate(sig, msg+fmt.Sprintf(" [%+v]", c), c, witness(rig.Log, all))
	}
	cmd := func(line string) wire.Reply {
		p.SendStr(line + "\r\n")
		rs, _ := p.ReadUntilStall()
		all = append(all, rs...)
		ctx.Add("replies_parsed", int64(len(rs)))
		if len(rs) == 0 {
			return wire.Reply{}
		}
		return rs[len(rs)-1]
	}
	checkCaps := func() {
		r := cmd(hello + " probe.test")
		if r.Code != 250 {
			fail("C12:ehlo-refused", fmt.Sprintf("%s answered %s", hello, r))
			return
		}
		got := append([]string{}, r.Lines[1:]...)
		// AUTH mechanisms: order-free
		for i, g := range got {
			if strings.HasPrefix(g, "AUTH ") {
				m := strings.Fields(g)[1:]
				sort.Strings(m)
				got[i] = "AUTH " + strings.Join(m, " ")
			}
		}
		sort.Strings(got)
		want := c12Caps(c, tlsActive)
		for i, w := range want {
			if strings.HasPrefix(w, "AUTH ") {
				m := strings.Fields(w)[1:]
				sort.Strings(m)
				want[i] = "AUTH " + strings.Join(m, " ")
			}
		}
		sort.Strings(want)
		ctx.Add("capability_sets_compared", 1)
		if strings.Join(got, "|") != strings.Join(want, "|") {
			var diff []string
			ws, gs := map[string]bool{}, map[string]bool{}
			for _, w := range want {
				ws[w] = true
			}
			for _, g := range got {
				gs[g] = true
				if !ws[g] {
					diff = append(diff, "+"+strings.Fields(g)[0])
				}
			}
			for _, w := range want {
				if !gs[w] {
					diff = append(diff, "-"+strings.Fields(w)[0])
				}
			}
			sort.Strings(diff)
			fail("C12:capabilities:"+strings.Join(diff, ","), fmt.Sprintf("%s (tls active=%v) advertises %v, the configuration enables %v", hello, tlsActive, got, want))
		}
	}
	fresh := func() bool {
		if !c.Fresh {
			return true
		}
		closeConn()
		if !open() {
			return false
		}
		r := cmd(hello + " probe.test")
		return r.Code == 250
	}
	if !open() {
		closeConn()
		return
	}
	// HELO lists none (SMTP only)
	if !c.LMTP {
		r := cmd("HELO probe.test")
		if r.Code != 250 || len(r.Lines) != 1 {
			fail("C12:helo-lists-extensions", fmt.Sprintf("HELO answered %s", r))
		}
	}
	checkCaps()
	if failed {
		closeConn()
		return
	}
	// parameter probes
	type probe struct {
		name    string
		mail    string
		rcpt    string
		enabled bool
		judged  bool
	}
	probes := []probe{
		{"SMTPUTF8", "MAIL FROM:<a@b.test> SMTPUTF8", "", c.UTF8, true},
		{"REQUIRETLS", "MAIL FROM:<a@b.test> REQUIRETLS", "", c.ReqTLS, !c.ReqTLS || tlsActive},
		{"BINARYMIME", "MAIL FROM:<a@b.test> BODY=BINARYMIME", "", c.Binary, true},
		{"DSN-MAIL", "MAIL FROM:<a@b.test> RET=FULL ENVID=x1", "", c.DSN, true},
		{"DSN-RCPT", "MAIL FROM:<a@b.test>", "RCPT TO:<c@d.test> NOTIFY=SUCCESS ORCPT=rfc822;c@d.test", c.DSN, true},
		{"RRVS", "MAIL FROM:<a@b.test>", "RCPT TO:<c@d.test> RRVS=2014-04-03T23:01:00Z", c.RRVS, true},
		{"8BITMIME", "MAIL FROM:<a@b.test> BODY=8BITMIME", "", true, true},
		{"SIZE", "MAIL FROM:<a@b.test> SIZE=10", "", true, true},
	}
	for _, pr := range probes {
		if failed || !fresh() {
			break
		}
		r := cmd(pr.mail)
		if pr.rcpt != "" {
			if r.Code != 250 {
				fail("C12:probe-setup", fmt.Sprintf("plain MAIL answered %s", r))
				break
			}
			r = cmd(pr.rcpt)
		}
		if pr.judged {
			switch {
			case pr.enabled && r.Code != 250:
				fail("C12:enabled-extension-refused:"+pr.name, fmt.Sprintf("%s is enabled but its parameter was answered %s", pr.name, r))
			case !pr.enabled && r.Code != 504:
				fail("C12:disabled-extension-not-504:"+pr.name, fmt.Sprintf("%s is disabled but its parameter was answered %s (expected 504)", pr.name, r))
			}
		}
		cmd("RSET")
	}
	// SIZE limit
	if !failed && c.Size > 0 && fresh() {
		r := cmd(fmt.Sprintf("MAIL FROM:<a@b.test> SIZE=%d", c.Size+1))
		if r.Code != 552 {
			fail("C12:size-limit-not-honoured", fmt.Sprintf("SIZE=%d with limit %d answered %s", c.Size+1, c.Size, r))
		}
		r = cmd(fmt.Sprintf("MAIL FROM:<a@b.test> SIZE=%d", c.Size))
		if r.Code != 250 {
			fail("C12:size-limit-not-honoured", fmt.Sprintf("SIZE=%d with limit %d answered %s", c.Size, c.Size, r))
		}
		cmd("RSET")
	}
	// RCPTMAX and CHUNKING
	if !failed && fresh() {
		cmd("MAIL FROM:<a@b.test>")
		n := 3
		if c.MaxRcpt > 0 {
			n = c.MaxRcpt
		}
		for i := 0; i < n; i++ {
			if r := cmd(fmt.Sprintf("RCPT TO:<r%d@d.test>", i)); r.Code != 250 {
				fail("C12:rcptmax", fmt.Sprintf("recipient %d of %d advertised was answered %s", i+1, c.MaxRcpt, r))
			}
		}
		if c.MaxRcpt > 0 {
			if r := cmd("RCPT TO:<extra@d.test>"); r.Class() == 2 {
				fail("C12:rcptmax", fmt.Sprintf("recipient %d accepted with RCPTMAX=%d", n+1, c.MaxRcpt))
			}
		}
		p.SendStr("BDAT 3 LAST\r\nabc")
		rs, _ := p.ReadUntilStall()
		all = append(all, rs...)
		if len(rs) == 0 || rs[0].Code != 250 {
			fail("C12:chunking-not-honoured", fmt.Sprintf("BDAT answered %s", codes(rs)))
		}
	}
	// BINARYMIME is honoured: such a message can only be sent with BDAT (RFC 3030 section 3), and
	// the restriction does not outlive the transaction
	if !failed && c.Binary && fresh() {
		cmd("RSET")
		if r := cmd("MAIL FROM:<bin@b.test> BODY=BINARYMIME"); r.Code != 250 {
			fail("C12:enabled-extension-refused:BINARYMIME", fmt.Sprintf("MAIL BODY=BINARYMIME answered %s", r))
		}
		cmd("RCPT TO:<c@d.test>")
		// (whether DATA is refused for such a message is RFC 3030's business, not this property's:
		// DATA is sent but its outcome is not judged)
		if r := cmd("DATA"); r.Code == 354 {
			p.SendStr("x\r\n.\r\n")
			p.ReadUntilStall()
			cmd("MAIL FROM:<bin2@b.test> BODY=BINARYMIME")
			cmd("RCPT TO:<c@d.test>")
		}
		if !failed {
			p.SendStr("BDAT 4 LAST\r\n")
			p.Send([]byte{0, 255, '\r', 10})
			rs, _ := p.ReadUntilStall()
			all = append(all, rs...)
			if len(rs) == 0 || rs[0].Code != 250 {
				fail("C12:binarymime-not-honoured", fmt.Sprintf("BDAT for a BINARYMIME message answered %s", codes(rs)))
			}
		}
		if !failed {
			cmd("MAIL FROM:<plain@b.test>")
			cmd("RCPT TO:<c@d.test>")
			if r := cmd("DATA"); r.Code != 354 {
				fail("C12:binarymime-restriction-leaks", fmt.Sprintf("DATA in the transaction after a BINARYMIME one answered %s", r))
			} else {
				p.SendStr("x\r\n.\r\n")
				rs, _ := p.ReadUntilStall()
				all = append(all, rs...)
			}
		}
	}
	// AUTH
	if !failed && fresh() {
		before := rig.Log.Len()
		r := cmd("AUTH VERIF b2s=")
		advertised := (tlsActive || c.Insecure) && c.AuthBackend
		reached := false
		for _, e := range rig.Log.Events()[before:] {
			if e.Kind == "Auth" || e.Kind == "SaslNext" {
				reached = true
			}
		}
		switch {
		case advertised && (r.Code != 235 || !reached):
			fail("C12:auth-advertised-not-honoured", fmt.Sprintf("AUTH is advertised but AUTH VERIF was answered %s (mechanism reached: %v)", r, reached))
		case !advertised && (r.Class() == 2 || r.Class() == 3 || reached):
			fail("C12:auth-not-advertised-but-accepted", fmt.Sprintf("AUTH is not available but AUTH VERIF was answered %s (mechanism reached: %v)", r, reached))
		case advertised:
			// what the configuration makes available does not change by having authenticated
			checkCaps()
		}
	}
	// STARTTLS last
	if !failed && fresh() {
		r := cmd("STARTTLS")
		adv := (c.TLS == "available" || c.TLS == "active") && !tlsActive
		switch {
		case adv && r.Code != 220:
			fail("C12:starttls-advertised-not-honoured", fmt.Sprintf("STARTTLS answered %s", r))
		case !adv && r.Class() != 5:
			fail("C12:starttls-not-advertised-but-accepted", fmt.Sprintf("STARTTLS answered %s", r))
		case adv:
			if err := p.StartTLSClient(); err != nil {
				fail("C12:starttls-handshake", "handshake failed: "+err.Error())
			} else {
				tlsActive = true
				checkCaps()
				if !failed && c.AuthBackend {
					// AUTH is advertised inside TLS: it must be honoured there, whatever happened in plaintext
					if r := cmd("AUTH VERIF b2s="); r.Code != 235 {
						fail("C12:auth-advertised-not-honoured", fmt.Sprintf("inside TLS AUTH is advertised but AUTH VERIF was answered %s", r))
					} else {
						checkCaps()
					}
				}
				if !failed {
					if r := cmd("STARTTLS"); r.Class() != 5 {
						fail("C12:starttls-inside-tls", fmt.Sprintf("STARTTLS inside TLS answered %s", r))
					}
				}
			}
		}
	}
	// STARTTLS accepted but the handshake fails (the peer sends something that is not a TLS
	// record): if the connection goes on, it is a plaintext connection and must advertise as one
	// (on a connection of its own, after everything else)
	if !failed && c.TLS == "available" {
		cmd("QUIT")
		closeConn()
		if !open() {
			closeConn()
			return
		}
		tlsActive = false
		cmd(hello + " probe.test")
		if r := cmd("STARTTLS"); r.Code == 220 {
			p.SendStr("NOOP\r\n")
			if _, err := p.ReadUntilStall(); err == nil {
				ctx.Add("failed_handshakes_followed_by_a_capability_check", 1)
				checkCaps()
			}
		}
	}
	cmd("QUIT")
	closeConn()
	ctx.Add("backend_events", countBackendEvents(rig.Log.Events()))
	if !failed {
		cls := fmt.Sprintf("tls=%s/lmtp=%v", c.TLS, c.LMTP)
		if ctx.WantSample(cls) {
			ctx.Sample(cls, map[string]any{"config": fmt.Sprintf("%+v", c), "advertised_initially": c12Caps(c, strings.HasPrefix(c.TLS, "active"))})
		}
	}
}
