package props

import (
	"bytes"
	"fmt"
	"strings"
	"time"

	"verifharness/core"

	"verifharness/rec"
	"verifharness/wire"
)

// A conversation corpus shared by the crash-point enumerations of C07 and C08.

type cstep struct {
	B         []byte
	NRep      int  // replies expected once the step has been received completely
	Msg       int  // message this step carries octets of (-1: none)
	Completes bool // the step completes message Msg (end marker / LAST chunk)
}

type conv struct {
	Name  string
	Mode  srvMode
	Auth  bool
	Steps []cstep
	Msgs  [][]byte // reference content of each message as the backend must see it when complete
	NRcpt int
}

func (c *conv) bytes() []byte {
	var b []byte
	for _, s := range c.Steps {
		b = append(b, s.B...)
	}
	return b
}

// completeAt returns, per message, the stream offset after which it has been received in full.
func (c *conv) completeAt() []int {
	out := make([]int, len(c.Msgs))
	off := 0
	for _, s := range c.Steps {
		off += len(s.B)
		if s.Msg >= 0 && s.Completes {
			out[s.Msg] = off
			if s.B[0] == 'B' && bytes.HasSuffix(s.B, []byte("BDAT 0 LAST\r\n")) {
				// Zero-size LAST chunk: every message octet has been delivered before; a cut
				// that only removes the CRLF of this command line is not judged.
				out[s.Msg] = off - 2
			}
		}
	}
	return out
}

type convBuilder struct {
	c conv
}

func newConv(name string, mode srvMode) *convBuilder {
	b := &convBuilder{c: conv{Name: name, Mode: mode, NRcpt: 1}}
	b.cmd(mode.hello())
	return b
}

func (b *convBuilder) cmd(line string) *convBuilder {
	b.c.Steps = append(b.c.Steps, cstep{B: []byte(line + "\r\n"), NRep: 1, Msg: -1})
	return b
}

func (b *convBuilder) envelope(nrcpt int) *convBuilder {
	b.cmd(fmt.Sprintf("MAIL FROM:<s%d@x.test>", len(b.c.Msgs)))
	for i := 0; i < nrcpt; i++ {
		b.cmd(fmt.Sprintf("RCPT TO:<r%d@x.test>", i))
	}
	b.c.NRcpt = nrcpt
	return b
}

func (b *convBuilder) finals() int {
	if b.c.Mode.lmtp() {
		return b.c.NRcpt
	}
	return 1
}

// data adds DATA + the stuffed stream for body (which must end in CRLF or be empty).
func (b *convBuilder) data(body string) *convBuilder {
	b.cmd("DATA")
	var stream []byte
	for _, line := range bytes.SplitAfter([]byte(body), []byte("\r\n")) {
		if len(line) > 0 && line[0] == '.' {
			stream = append(stream, '.')
		}
		stream = append(stream, line...)
	}
	stream = append(stream, ".\r\n"...)
	mi := len(b.c.Msgs)
	b.c.Msgs = append(b.c.Msgs, []byte(body))
	b.c.Steps = append(b.c.Steps, cstep{B: stream, NRep: b.finals(), Msg: mi, Completes: true})
	return b
}

// bdat adds the message in chunks of the given sizes (LAST on the final one).
func (b *convBuilder) bdat(msg string, sizes ...int) *convBuilder {
	mi := len(b.c.Msgs)
	b.c.Msgs = append(b.c.Msgs, []byte(msg))
	off := 0
	for i, n := range sizes {
		last := i == len(sizes)-1
		cmd := fmt.Sprintf("BDAT %d", n)
		nrep := 1
		if last {
			cmd += " LAST"
			nrep = b.finals()
		}
		st := cstep{B: append([]byte(cmd+"\r\n"), msg[off:off+n]...), NRep: nrep, Msg: mi, Completes: last}
		b.c.Steps = append(b.c.Steps, st)
		off += n
	}
	if off != len(msg) {
		panic("bdat sizes")
	}
	return b
}

func (b *convBuilder) done() conv {
	b.cmd("QUIT")
	return b.c
}

func corpus() []conv {
	var out []conv
	modes := []srvMode{modeSMTP, modeLMTP, modeLMTPRcpt}
	for _, m := range modes {
		nr := 1
		if m.lmtp() {
			nr = 2
		}
		out = append(out,
			newConv("data-simple", m).envelope(nr).data("Subject: a\r\n\r\nhello\r\n").done(),
			newConv("data-dots", m).envelope(nr).data(".leading\r\n..two\r\n.\r.\r\nx\r\n").done(),
			newConv("data-ends-in-crlf-dot", m).envelope(nr).data("text\r\n.x\r\n.\n\r\n").done(),
			newConv("data-empty", m).envelope(nr).data("").done(),
			newConv("data-two-messages", m).envelope(nr).data("one\r\n").envelope(nr).data("two\r\n.two\r\n").done(),
			newConv("bdat-single", m).envelope(nr).bdat("chunk-payload\r\n", 15).done(),
			newConv("bdat-three", m).envelope(nr).bdat("aaaa\r\n.\r\nbbbbQUIT\r\ncc", 9, 10, 2).done(),
			newConv("bdat-zero-last", m).envelope(nr).bdat("xyz", 3, 0).done(),
			newConv("bdat-then-data", m).envelope(nr).bdat("first\x00\xffmsg", 5, 5).envelope(nr).data("second\r\n").done(),
		)
	}
	return out
}

// authCorpus adds conversations with AUTH exchanges (C08 only).
func authCorpus() []conv {
	var out []conv
	b := newConv("auth-plain-ir", modeSMTP)
	b.c.Auth = true
	b.cmd("AUTH PLAIN AHVzZXIAcGFzcw==")
	out = append(out, b.envelope(1).data("m\r\n").done())
	b = newConv("auth-plain-2step", modeSMTP)
	b.c.Auth = true
	b.cmd("AUTH PLAIN").cmd("AHVzZXIAcGFzcw==")
	out = append(out, b.envelope(1).bdat("zz", 2).done())
	b = newConv("auth-cancel", modeSMTP)
	b.c.Auth = true
	b.cmd("AUTH PLAIN").cmd("*")
	out = append(out, b.cmd("NOOP").done())
	return out
}

// waitDataEnds waits (bounded, inconclusive on expiry) until every begun Data/LMTPData call
// has ended. Delivery goroutines are not joined by Shutdown, so the log is polled.
// waitDataEndsNow reports, without waiting, whether every Data call that began has ended.
func waitDataEndsNow(l *rec.Log) bool {
	b, e := 0, 0
	for _, ev := range l.Events() {
		if ev.Kind == "Data" || ev.Kind == "LMTPData" {
			if ev.Ph == "b" {
				b++
			} else {
				e++
			}
		}
	}
	return b == e
}

func waitDataEnds(l *rec.Log) bool {
	deadline := time.Now().Add(wire.Watchdog)
	for {
		b, e := 0, 0
		for _, ev := range l.Events() {
			if ev.Kind == "Data" || ev.Kind == "LMTPData" {
				if ev.Ph == "b" {
					b++
				} else {
					e++
				}
			}
		}
		if b == e {
			return true
		}
		if time.Now().After(deadline) {
			return false
		}
		time.Sleep(200 * time.Microsecond)
	}
}

// seededConv builds the k-th conversation of the seeded family (thorough tiers of C07/C08): a
// random mode, 1..3 messages, each sent with DATA (random CRLF-line body with dots, bare CR/LF
// and terminator look-alikes) or with 1..4 BDAT chunks (zero sizes included).
func seededConv(seed uint64, k int) conv {
	r := core.NewRand(seed, 707, uint64(k))
	mode := []srvMode{modeSMTP, modeLMTP, modeLMTPRcpt}[r.Intn(3)]
	b := newConv(fmt.Sprintf("seeded-%d", k), mode)
	toks := []string{"x", "line", ".", "..", "\r", "\n", " ", "\x00", "\xff", "QUIT", ".\r", "\n.\n", "MAIL FROM:<bait@x.test>"}
	nmsg := 1 + r.Intn(3)
	for m := 0; m < nmsg; m++ {
		nr := 1 + r.Intn(3)
		b.envelope(nr)
		var body string
		for l := r.Intn(5); l > 0; l-- {
			line := ""
			for t := 1 + r.Intn(4); t > 0; t-- {
				line += toks[r.Intn(len(toks))]
			}
			if line == "." {
				line = ".."
			}
			body += line + "\r\n"
		}
		// the body must not contain the end marker itself
		for strings.Contains(body, "\r\n.\r\n") || strings.HasPrefix(body, ".\r\n") {
			body = strings.Replace(body, ".\r\n", ".x\r\n", 1)
		}
		if r.Bool() {
			b.data(body)
		} else {
			msg := body + toks[r.Intn(len(toks))]
			var sizes []int
			rem := len(msg)
			for c := 1 + r.Intn(4); c > 1 && rem > 0; c-- {
				n := r.Intn(rem + 1)
				sizes = append(sizes, n)
				rem -= n
			}
			sizes = append(sizes, rem)
			if r.Chance(1, 3) {
				sizes = append(sizes, 0)
			}
			b.bdat(msg, sizes...)
		}
	}
	return b.done()
}

// convFor returns conversation k of the fixed corpus (cseed == 0) or of the seeded family.
func convFor(fixed []conv, cseed uint64, k int) (conv, bool) {
	if cseed != 0 {
		return seededConv(cseed, k), true
	}
	if k < 0 || k >= len(fixed) {
		return conv{}, false
	}
	return fixed[k], true
}
