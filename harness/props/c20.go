package props

import (
	"context"
	"crypto/tls"
	"encoding/json"
	"errors"
	"fmt"
	"io"
	"net"
	"runtime"
	"strings"
	"sync"
	"sync/atomic"
	"time"

	"github.com/anishathalye/porcupine"
	smtp "github.com/emersion/go-smtp"

	"verifharness/core"
	"verifharness/detect"
	"verifharness/memconn"
	"verifharness/rec"
	"verifharness/wire"
)

// C20 — no data races or deadlocks; Close and Shutdown end serving exactly once.

type c20Case struct {
	Kind string `json:"kind"` // order | incallback | concurrent | accept | replay

	Order    []string `json:"order"`    // events: D R N Q X C S
	Transfer string   `json:"transfer"` // bdat | lmtpdata | lmtpbdat

	Callback string `json:"callback"` // incallback: NewSession Mail Rcpt Data Reset Logout
	Direct   bool   `json:"direct"`   // Close called on the callback's own goroutine (not for Reset/Logout)

	Callers []string `json:"callers"` // concurrent: Close / Shutdown
	LErr    bool     `json:"lerr"`    // the listener's Close returns an error
	NList   int      `json:"nlist"`   // number of listeners being served

	Accept []string `json:"accept"` // accept: temp / perm

	Seed uint64 `json:"seed"`
}

func init() {
	register(&Prop{ID: "C20", Run: c20Run, Replay: func(ctx *core.Ctx, raw json.RawMessage) error {
		return core.ReplayCase(ctx, raw, c20Exec)
	}, Parts: func(tier string) []Part {
		if tier == "thorough" {
			return []Part{{Name: "race", Race: true}, {Name: "race-p1", Race: true, GOMAXPROCS: 1}, {Name: "race-p4", Race: true, GOMAXPROCS: 4}, {Name: "norace", Race: false}}
		}
		return []Part{{Name: "race", Race: true}, {Name: "race-p1", Race: true, GOMAXPROCS: 1}}
	}})
}

func c20Run(ctx *core.Ctx) {
	maxOrder, nConc, nReplay := 3, 1500, 1500
	if ctx.Thorough() {
		maxOrder, nConc, nReplay = 5, 60000, 120000
	}
	if ctx.Part != "race" && ctx.Part != "norace" {
		nConc /= 3
		nReplay /= 3
	}
	ctx.Rule = fmt.Sprintf("under the race detector (GOMAXPROCS default and 1%s): all orders of up to %d harness events from {delivery completes, client sends RSET, client submits the next transaction, client sends QUIT, peer disconnects, Server.Close, Server.Shutdown} for a parked chunked (BDAT) delivery, a parked LMTP DATA delivery, a parked LMTP BDAT delivery and a parked BDAT delivery of an LMTP server over a plain Session; Server.Close / Conn.Close overlapping each backend callback kind (callback parked on a gate, second closer on another goroutine; also called directly from Mail/Rcpt/Data/NewSession); %d barrier-released groups of 2..8 concurrent Close/Shutdown callers on 1..2 listeners (with and without a failing listener Close) checked for linearizability with porcupine against 'first caller gets the listener result, later ones ErrServerClosed'; all sequences of length <=5 of temporary/permanent Accept errors; Shutdown with a context that has already expired or expires while 0..2 connections are open (it must still stop accepting); %d cases replayed from the C03/C05/C13 generators for race coverage. Oracles: race-log parser, termination of Serve/handlers/deliveries, goroutine table at the end of the run. Non-trivial: every case; distinct by case.", map[bool]string{true: ", 4", false: ""}[ctx.Thorough()], maxOrder, nConc, nReplay)
	ctx.Assumptions = []string{"the race detector only sees executed accesses", "known race findings are matched by exact statement pair", "Serve calls that start after Close are not judged"}
	core.RunCases(ctx, func(emit func(c20Case)) {
		events := []string{"D", "R", "N", "Q", "X", "C", "S"}
		var rec func(cur []string)
		rec = func(cur []string) {
			if len(cur) > 0 {
				for _, tr := range []string{"bdat", "lmtpdata", "lmtpbdat", "lmtpplainbdat", "bdatlocked"} {
					emit(c20Case{Kind: "order", Order: append([]string{}, cur...), Transfer: tr})
					if ctx.Thorough() && len(cur) <= 3 {
						for rep := 1; rep <= 4; rep++ {
							emit(c20Case{Kind: "order", Order: append([]string{}, cur...), Transfer: tr, Seed: uint64(rep)})
						}
					}
				}
			}
			if len(cur) == maxOrder {
				return
			}
			for _, e := range events {
				used := false
				for _, x := range cur {
					if x == e {
						used = true
					}
				}
				if !used {
					rec(append(cur, e))
				}
			}
		}
		rec(nil)
		for _, cb := range []string{"NewSession", "Mail", "Rcpt", "Data", "Reset", "Logout"} {
			nrep := 6
			if ctx.Thorough() {
				nrep = 60
			}
			for rep := 0; rep < nrep; rep++ {
				emit(c20Case{Kind: "incallback", Callback: cb, Seed: uint64(rep)})
				if cb != "Reset" && cb != "Logout" {
					emit(c20Case{Kind: "incallback", Callback: cb, Direct: true, Seed: uint64(rep)})
				}
			}
		}
		for i := 0; i < nConc; i++ {
			r := core.NewRand(ctx.Seed, 201, uint64(i))
			n := 2 + r.Intn(7)
			var callers []string
			for k := 0; k < n; k++ {
				callers = append(callers, []string{"Close", "Shutdown"}[r.Intn(2)])
			}
			emit(c20Case{Kind: "concurrent", Callers: callers, LErr: r.Chance(1, 3), NList: 1 + r.Intn(2), Seed: uint64(i)})
		}
		core.Strings([]string{"temp", "perm"}, 5, func(parts []string) {
			emit(c20Case{Kind: "accept", Accept: append([]string{}, parts...)})
			emit(c20Case{Kind: "accept", Accept: append([]string{}, parts...), Direct: true}) // end with Shutdown instead of Close
			if len(parts) <= 2 {
				// the closed listener keeps reporting temporary Accept errors: Serve must still return
				emit(c20Case{Kind: "accept", Accept: append([]string{}, parts...), LErr: true})
				emit(c20Case{Kind: "accept", Accept: append([]string{}, parts...), Direct: true, LErr: true})
			}
		})
		// connections that are still in their (implicit) TLS handshake, or idle, when Close / Shutdown fires
		for _, st := range []string{"tls-stalled", "tls-half", "plain-idle", "plain-greeted", "starttls-stalled", "starttls-half", "just-accepted", "accepted-at-close", "write-blocked"} {
			for _, how := range []string{"Close", "Shutdown"} {
				if st == "write-blocked" && how == "Shutdown" {
					continue // Shutdown waits for the connection, and this one cannot finish by itself
				}
				nrep := 3
				if st == "just-accepted" {
					nrep = 40 // schedule dependent: the closer races the start of the connection's goroutine
				}
				for rep := 0; rep < nrep; rep++ {
					emit(c20Case{Kind: "stalled", Transfer: st, Callback: how, Seed: uint64(rep)})
				}
			}
		}
		for _, when := range []string{"already-expired", "expires-later"} {
			for nconn := 0; nconn <= 2; nconn++ {
				for rep := 0; rep < 3; rep++ {
					emit(c20Case{Kind: "expired", Callback: when, NList: nconn, Seed: uint64(rep)})
				}
			}
		}
		// several listeners served by one server; the Serve of one of them ends early (permanent
		// Accept error, possibly after temporary ones) - Close / Shutdown still have to end the others
		for nl := 2; nl <= 4; nl++ {
			for failing := -1; failing < nl; failing++ {
				for _, how := range []string{"Close", "Shutdown"} {
					for _, pre := range []string{"", "temp"} {
						emit(c20Case{Kind: "listeners", NList: nl, Seed: uint64(failing + 1), Callback: how, Transfer: pre})
					}
				}
			}
		}
		// a backend whose Logout takes its time (it may well wait for something that another
		// connection has to do): meanwhile other connections are accepted, greeted and served
		for _, end := range []string{"disconnect", "quit", "errors"} {
			for rep := 0; rep < 4; rep++ {
				emit(c20Case{Kind: "slowlogout", Callback: end, Seed: uint64(rep)})
			}
		}
		for i := 0; i < nReplay; i++ {
			emit(c20Case{Kind: "replay", Seed: uint64(i)})
		}
	}, c20Exec)
	c08LeakCheck(ctx)
}

func c20Exec(ctx *core.Ctx, c c20Case) {
	switch c.Kind {
	case "order":
		c20Order(ctx, c)
	case "incallback":
		c20InCallback(ctx, c)
	case "concurrent":
		c20Concurrent(ctx, c)
	case "accept":
		c20Accept(ctx, c)
	case "stalled":
		c20Stalled(ctx, c)
	case "replay":
		c20Replay(ctx, c)
	case "expired":
		c20Expired(ctx, c)
	case "listeners":
		c20Listeners(ctx, c)
	case "slowlogout":
		c20SlowLogout(ctx, c)
	}
}

// c20SlowLogout: connection A ends (peer gone / QUIT / too many errors) and its session's Logout
// is held on a gate. While it is held, connection B must be accepted, greeted and served to its
// QUIT: one connection's teardown is not a server-wide critical section. A B that is not greeted
// is judged from the goroutine table (its handler parked on a lock), not from the time.
func c20SlowLogout(ctx *core.Ctx, c c20Case) {
	if gaveUp("c20slowlogout") {
		ctx.Add("cases_skipped_after_an_established_hang", 1)
		return
	}
	ctx.Eval(fmt.Sprintf("slowlogout|%s|%d", c.Callback, c.Seed), true)
	rig := newRig(modeSMTP, nil)
	gate := rec.NewGate()
	defer gate.OpenAll()
	rig.BE.H.Logout = func(sess int) error {
		if sess == 1 {
			gate.Wait("logout")
		}
		return nil
	}
	a := rig.Dial()
	a.SendStr("EHLO a.test\r\n")
	a.ReadUntilStall()
	switch c.Callback {
	case "quit":
		a.SendStr("QUIT\r\n")
	case "errors":
		a.SendStr("FOO1\r\nFOO2\r\nFOO3\r\nFOO4\r\n")
	default:
		a.Close()
	}
	fail := func(sig, msg string, extra []string) {
		ctx.Violate(sig, msg+fmt.Sprintf(" [connection A ended by %s]", c.Callback), c, append(rig.Log.Strings(40), extra...))
	}
	if !gate.WaitParked("logout") {
		a.Close()
		rig.CloseBounded()
		ctx.Inconclusive("C20 slowlogout: Logout was not reached")
		return
	}
	b := rig.Dial()
	b.Raw.SetWatchdog(3 * time.Second)
	g, err := b.ReadReply()
	if err != nil || g.Code != 220 {
		giveUp("c20slowlogout")
		var parked []string
		for _, gr := range detect.LibGoroutines(detect.Snapshot()) {
			if (strings.Contains(gr.Raw, "(*Server).handleConn") || strings.Contains(gr.Raw, "(*Server).Serve")) && (strings.Contains(gr.State, "sync.Mutex") || strings.Contains(gr.State, "semacquire") || strings.Contains(gr.State, "sync.RWMutex")) {
				parked = append(parked, gr.Summary())
			}
		}
		gate.OpenAll()
		a.Close()
		b.Close()
		rig.CloseBounded()
		if len(parked) > 0 {
			fail("C20:connection-stalled-by-another-connections-logout", fmt.Sprintf("while the Logout of connection A is in progress a new connection is not greeted (%v): Serve / its handler is parked on a lock", err), parked)
		} else {
			ctx.Inconclusive("C20 slowlogout: second connection not greeted, no parked handler found")
		}
		return
	}
	b.SendStr("EHLO b.test\r\nNOOP\r\nQUIT\r\n")
	rs, _ := b.ReadAll()
	gate.OpenAll()
	a.Close()
	b.Close()
	fin := rig.Finish()
	if codes(rs) != "250,250,221" {
		fail("C20:connection-stalled-by-another-connections-logout", fmt.Sprintf("while the Logout of connection A is in progress connection B's EHLO, NOOP, QUIT were answered %s", codes(rs)), nil)
		return
	}
	if !fin {
		ctx.Inconclusive("C20 slowlogout: Finish watchdog")
		return
	}
	ctx.Add("connections_served_while_another_logout_was_in_progress", 1)
	if ctx.WantSample("slowlogout") {
		ctx.Sample("slowlogout", map[string]any{"a_ended_by": c.Callback, "b_replies": codes(rs)})
	}
}

// c20Listeners: NList listeners are registered one after the other (each Serve has entered Accept
// before the next one starts, so the registration order is known); the Serve of listener Seed-1
// (none for Seed 0) returns early on a permanent Accept error. Every other listener then serves
// one connection, and Close / Shutdown must close every remaining listener, make every Serve
// return and end the connections.
func c20Listeners(ctx *core.Ctx, c c20Case) {
	failing := int(c.Seed) - 1
	ctx.Eval(fmt.Sprintf("listeners|%d|%d|%s|%s", c.NList, failing, c.Callback, c.Transfer), true)
	l := rec.NewLog()
	srv := smtp.NewServer(rec.NewBackend(l, rec.Plain))
	srv.ErrorLog = l
	fail := func(sig, msg string) {
		ctx.Violate(sig, msg+fmt.Sprintf(" [listeners=%d failing=%d ended by %s]", c.NList, failing, c.Callback), c, l.Strings(30))
	}
	var ls []*memconn.Listener
	var dones []chan error
	for i := 0; i < c.NList; i++ {
		ml := memconn.NewListener()
		ls = append(ls, ml)
		d := make(chan error, 1)
		dones = append(dones, d)
		go func() { d <- srv.Serve(ml) }()
		ml.WaitAccepting()
	}
	cleanup := func() {
		done := make(chan struct{})
		go func() { srv.Close(); close(done) }()
		select {
		case <-done:
		case <-time.After(wire.Watchdog):
		}
		for _, ml := range ls {
			ml.Close()
		}
	}
	if failing >= 0 {
		if c.Transfer == "temp" {
			ls[failing].PushErr(memconn.TempErr{N: 0})
		}
		ls[failing].PushErr(memconn.PermErr{N: 1})
		select {
		case err := <-dones[failing]:
			var pe memconn.PermErr
			if !errors.As(err, &pe) {
				fail("C20:serve-accept-result", fmt.Sprintf("Serve of listener %d returned %v, expected its permanent Accept error", failing, err))
				cleanup()
				return
			}
		case <-time.After(wire.Watchdog):
			fail("C20:serve-ignores-permanent-accept-error", "Serve did not return on a permanent Accept error")
			cleanup()
			return
		}
	}
	// every other listener still serves
	var ends []*memconn.Conn
	for i, ml := range ls {
		if i == failing {
			continue
		}
		cEnd, sEnd := memconn.Pipe(l)
		cEnd.SetWatchdog(wire.Watchdog)
		ml.Push(sEnd)
		buf := make([]byte, 64)
		n, err := cEnd.Read(buf)
		if err != nil || !strings.HasPrefix(string(buf[:n]), "220") {
			fail("C20:listener-not-served", fmt.Sprintf("listener %d of %d did not serve a new connection after listener %d had failed: %q %v", i, c.NList, failing, buf[:n], err))
			cleanup()
			return
		}
		ends = append(ends, cEnd)
	}
	ended := make(chan error, 1)
	if c.Callback == "Close" {
		go func() { ended <- srv.Close() }()
	} else {
		for _, e := range ends {
			e.Close() // Shutdown waits for the connections: the peers leave
		}
		go func() { ended <- srv.Shutdown(context.Background()) }()
	}
	select {
	case err := <-ended:
		if err != nil {
			fail("C20:close-result", fmt.Sprintf("%s returned %v", c.Callback, err))
			cleanup()
			return
		}
	case <-time.After(wire.Watchdog):
		lines, blocked := c20Blocked()
		if blocked {
			fail("C20:close-does-not-return", fmt.Sprintf("%s does not return: %s", c.Callback, strings.Join(lines, " ; ")))
		} else {
			ctx.Inconclusive("C20 listeners: watchdog in " + c.Callback)
		}
		cleanup()
		return
	}
	for i, ml := range ls {
		if i == failing {
			continue
		}
		if !ml.IsClosed() {
			fail("C20:close-leaves-listener-open", fmt.Sprintf("%s returned but listener %d of %d (registered after the one whose Serve had ended: %v) is still open", c.Callback, i, c.NList, failing >= 0 && i > failing))
			cleanup()
			return
		}
		select {
		case err := <-dones[i]:
			if err != nil {
				fail("C20:serve-result-after-close", fmt.Sprintf("Serve of listener %d returned %v after %s", i, err, c.Callback))
				cleanup()
				return
			}
		case <-time.After(wire.Watchdog):
			fail("C20:serve-does-not-return", fmt.Sprintf("Serve of listener %d did not return after %s", i, c.Callback))
			cleanup()
			return
		}
	}
	if c.Callback == "Close" {
		for i, e := range ends {
			e.SetWatchdog(wire.Watchdog)
			buf := make([]byte, 64)
			if _, err := e.Read(buf); err == nil || isWatchdog(err) {
				fail("C20:close-leaves-connection-open", fmt.Sprintf("Close returned but connection %d is still open (read: %v)", i, err))
				cleanup()
				return
			}
			e.Close()
		}
	}
	if err := srv.Close(); !errors.Is(err, smtp.ErrServerClosed) {
		fail("C20:second-close", fmt.Sprintf("a second Close returned %v, expected ErrServerClosed", err))
		return
	}
	ctx.Add("listeners_served", int64(c.NList))
	if ctx.WantSample("listeners") {
		ctx.Sample("listeners", map[string]any{"listeners": c.NList, "failing": failing, "ended_by": c.Callback})
	}
}

// c20Expired: Shutdown called with a context that has already expired (or that expires while a
// connection is still open) has no time to wait, but it still stops accepting: Serve returns,
// the server counts as closed, and the connections that are still open end when their peers go.
func c20Expired(ctx *core.Ctx, c c20Case) {
	if gaveUp("c20expired") {
		ctx.Add("cases_skipped_after_an_established_hang", 1)
		return
	}
	ctx.Eval(fmt.Sprintf("expired|%d|%s|%d", c.NList, c.Callback, c.Seed), true)
	rig := newRig(modeSMTP, nil)
	var peers []*wire.Peer
	for i := 0; i < c.NList; i++ { // NList doubles as the number of open connections here
		p := rig.Dial()
		p.ReadReply()
		p.SendStr("EHLO c.test\r\n")
		p.ReadReply()
		peers = append(peers, p)
	}
	fail := func(sig, msg string, extra []string) {
		ctx.Violate(sig, msg+fmt.Sprintf(" [open connections=%d context=%s]", c.NList, c.Callback), c, append(rig.Log.Strings(40), extra...))
	}
	rig.L.WaitAccepting() // Serve has registered its listener (Shutdown racing the start of Serve is not judged)
	rig.L.WaitDrained()
	sctx, cancel := context.WithCancel(context.Background())
	if c.Callback == "already-expired" {
		cancel()
	}
	sd := make(chan error, 1)
	go func() { sd <- rig.Srv.Shutdown(sctx) }()
	if c.Callback != "already-expired" {
		for i := 0; i < 50; i++ {
			runtime.Gosched()
		}
		cancel() // expires while Shutdown waits (or after it returned, with no connection open)
	}
	var serr error
	select {
	case serr = <-sd:
	case <-time.After(wire.Watchdog):
		lines, blocked := c20Blocked()
		if blocked || len(lines) == 0 {
			fail("C20:shutdown-does-not-return", "Shutdown does not return although its context has expired", lines)
		} else {
			ctx.Inconclusive("C20 expired/Shutdown watchdog")
		}
		for _, p := range peers {
			p.Close()
		}
		return
	}
	if c.NList > 0 && serr == nil {
		fail("C20:shutdown-returned-before-connections-ended", "Shutdown returned nil while a connection was still open", nil)
	}
	// it has stopped accepting: Serve returns, and the server is closed for later callers
	if _, ok := rig.WaitServe(); !ok {
		giveUp("c20expired")
		lines, _ := c20Blocked()
		fail("C20:shutdown-leaves-listener-open", fmt.Sprintf("Shutdown returned %v (context expired) but Serve keeps running: the listeners were not closed", serr), lines)
		rig.CloseBounded()
		for _, p := range peers {
			p.Close()
		}
		return
	}
	if err, ret := rig.CloseBounded(); ret && !errors.Is(err, smtp.ErrServerClosed) {
		fail("C20:second-close-result", fmt.Sprintf("Close after Shutdown returned %v, expected ErrServerClosed", err), nil)
	}
	for _, p := range peers {
		p.Close()
	}
	if !rig.Finish() {
		lines, blocked := c20Blocked()
		if blocked {
			fail("C20:handler-does-not-end", "the peers have gone but a handler does not end", lines)
		} else {
			ctx.Inconclusive("C20 expired: watchdog at the end")
		}
	}
}

// c20Blocked renders library goroutines for a termination failure.
func c20Blocked() (lines []string, allBlocked bool) {
	allBlocked = true
	for _, g := range detect.LibGoroutines(detect.Snapshot()) {
		lines = append(lines, g.Summary())
		if g.State == "running" || g.State == "runnable" {
			allBlocked = false
		}
		if len(lines) > 30 {
			break
		}
	}
	return
}

func c20Order(ctx *core.Ctx, c c20Case) {
	if gaveUp("c20order|"+c.Transfer) || (gaveUp("c20order-close") && strings.Contains(strings.Join(c.Order, ""), "C")) {
		ctx.Add("cases_skipped_after_an_established_hang", 1)
		return
	}
	ctx.Eval(fmt.Sprintf("order|%v|%s|%d", c.Order, c.Transfer, c.Seed), true)
	mode := modeSMTP
	if c.Transfer != "bdat" && c.Transfer != "bdatlocked" {
		mode = modeLMTPRcpt
	}
	// "bdatlocked": the backend serialises its callbacks per session with a mutex of its own (Data
	// holds it while it runs, Reset takes it) and its Data is not held back by the harness: it
	// simply waits for more of the message. Ending the transfer must wake Data up before (or
	// without) waiting for Reset.
	locked := c.Transfer == "bdatlocked"
	var smu sync.Mutex
	if c.Transfer == "lmtpplainbdat" {
		mode = modeLMTP // LMTP server over a plain Session: the server itself fans the result out per recipient
	}
	rig := newRig(mode, nil)
	gate := rec.NewGate()
	defer gate.OpenAll()
	var nData atomic.Int32
	rig.BE.H.Data = func(sess int, r *rec.Reader, st smtp.StatusCollector) error {
		k := nData.Add(1)
		if locked {
			smu.Lock()
			defer smu.Unlock()
		}
		if k == 1 {
			r.ReadN(4, 4)
			if !locked {
				gate.Wait("d1")
			}
		}
		err := r.ReadAll(32)
		if st != nil && k == 1 {
			func() {
				defer func() { recover() }()
				st.SetStatus("r1@x.test", nil)
			}()
		}
		if err != nil && err.Error() != "EOF" {
			return err
		}
		return nil
	}
	if locked {
		rig.BE.H.Reset = func(int) {
			smu.Lock()
			smu.Unlock() //nolint:staticcheck // the point is to wait for a running Data
		}
	}
	p := rig.Dial()
	pre := mode.hello() + "\r\nMAIL FROM:<s1@x.test>\r\nRCPT TO:<r1@x.test>\r\n"
	p.SendStr(pre)
	if _, err := expect(p, 4); err != nil {
		gate.OpenAll()
		p.Close()
		rig.Finish()
		ctx.Inconclusive("C20 order preamble")
		return
	}
	switch c.Transfer {
	case "bdat", "lmtpbdat", "lmtpplainbdat", "bdatlocked":
		p.SendStr("BDAT 4\r\n")
		p.SendStr("park")
		p.ReadReply()
	default:
		p.SendStr("DATA\r\n")
		p.ReadReply()
		p.SendStr("park of the body\r\n.\r\n")
	}
	if locked {
		// wait until Data has begun (it then holds the backend's mutex and waits for input)
		for i := 0; i < 2000 && len(eventsOf(rig.Log.Events(), "Data", "b")) == 0; i++ {
			time.Sleep(time.Millisecond)
		}
	} else {
		gate.WaitParked("d1")
	}
	var shutdownDone chan error
	cancelShutdown := func() {}
	closed := false
	for _, e := range c.Order {
		rig.Log.Act("event " + e)
		switch e {
		case "D":
			gate.Open("d1")
		case "R":
			p.SendStr("RSET\r\n")
		case "N":
			p.SendStr("MAIL FROM:<s2@x.test>\r\nRCPT TO:<r2@x.test>\r\nBDAT 3 LAST\r\n")
			p.SendStr("two")
		case "Q":
			p.SendStr("QUIT\r\n")
		case "X":
			p.Close()
		case "C":
			if _, ret := rig.CloseBounded(); !ret {
				giveUp("c20order-close")
				lines, _ := c20Blocked()
				gate.OpenAll()
				p.Close()
				ctx.Violate("C20:close-does-not-return", fmt.Sprintf("Server.Close does not return [order=%v transfer=%s]", c.Order, c.Transfer), c, append(rig.Log.Strings(60), lines...))
				return
			}
			closed = true
		case "S":
			if shutdownDone == nil {
				sctx, cancel := context.WithCancel(context.Background())
				cancelShutdown = cancel
				shutdownDone = make(chan error, 1)
				go func() {
					err := rig.Srv.Shutdown(sctx)
					rig.Log.Act(fmt.Sprintf("Shutdown returned %v", err))
					shutdownDone <- err
				}()
			}
		}
		for i := 0; i < 20+int(c.Seed)*40; i++ {
			runtime.Gosched()
		}
		if c.Seed >= 3 {
			time.Sleep(time.Duration(c.Seed-2) * 200 * time.Microsecond)
		}
	}
	// release everything the harness controls
	gate.OpenAll()
	p.Close()
	fail := func(sig, msg string, extra []string) {
		ctx.Violate(sig, msg+fmt.Sprintf(" [order=%v transfer=%s]", c.Order, c.Transfer), c, append(rig.Log.Strings(80), extra...))
	}
	if shutdownDone != nil {
		select {
		case err := <-shutdownDone:
			// Shutdown may only report success once every connection has ended
			if err == nil {
				ev := rig.Log.Events()
				retSeq, closeSeq := 0, 0
				for _, e := range ev {
					if e.Kind == "act" && strings.HasPrefix(e.A, "Shutdown returned") {
						retSeq = e.Seq
					}
					if e.Kind == "close" && e.A == "s2c" {
						closeSeq = e.Seq
					}
				}
				if closeSeq == 0 || closeSeq > retSeq {
					fail("C20:shutdown-returned-before-connections-ended", "Shutdown returned nil while a connection handler had not yet closed its connection", nil)
					cancelShutdown()
					rig.Finish()
					return
				}
			}
		case <-time.After(wire.Watchdog):
			giveUp("c20order|" + c.Transfer)
			lines, blocked := c20Blocked()
			cancelShutdown()
			if blocked {
				fail("C20:shutdown-does-not-return", "every connection has ended but Shutdown does not return", lines)
			} else {
				ctx.Inconclusive("C20 Shutdown watchdog")
			}
			rig.Finish()
			return
		}
		cancelShutdown()
	}
	if !closed && shutdownDone == nil {
		if !rig.Finish() {
			giveUp("c20order|" + c.Transfer)
			lines, blocked := c20Blocked()
			if blocked {
				fail("C20:handler-does-not-end", "the connection was closed by the peer but its handler does not end", lines)
			} else {
				ctx.Inconclusive("C20 order watchdog")
			}
			return
		}
	} else {
		if _, ok := rig.WaitServe(); !ok {
			giveUp("c20order|" + c.Transfer)
			lines, blocked := c20Blocked()
			if blocked {
				fail("C20:serve-does-not-return", "Serve did not return after Close/Shutdown", lines)
			} else {
				ctx.Inconclusive("C20 Serve watchdog")
			}
			return
		}
	}
	if !waitDataEnds(rig.Log) {
		giveUp("c20order|" + c.Transfer)
		lines, blocked := c20Blocked()
		if blocked {
			fail("C20:delivery-goroutine-stuck", "a backend delivery never ended although its connection is gone", lines)
		} else {
			ctx.Inconclusive("C20 delivery watchdog")
		}
		return
	}
	ctx.Add("backend_events", countBackendEvents(rig.Log.Events()))
	// lifecycle: exactly one Logout per session (Server.Close does not join handlers: wait for the close event)
	c20WaitConnClosed(rig.Log)
	c20WaitLogouts(rig.Log)
	// (not judged when Server.Close was among the events: a command that is already buffered when
	// Close takes the session away makes the handler trip over the nil session; that recovered
	// panic reaches neither the backend nor the peer and no property speaks about it)
	if pm := logPanic(rig.Log.Events()); pm != "" && !strings.Contains(strings.Join(c.Order, ""), "C") {
		fail("C20:recovered-panic", "the server recovered a panic of its own making (the backend script never panics): "+clipStr(pm, 300), nil)
		return
	}
	logouts := map[int]int{}
	sessions := map[int]bool{}
	for _, e := range rig.Log.Events() {
		if e.Kind == "NewSession" && e.Ph == "e" && e.Err == "" {
			sessions[e.Sess] = true
		}
		if e.Kind == "Logout" && e.Ph == "b" {
			logouts[e.Sess]++
		}
	}
	for s := range sessions {
		if logouts[s] != 1 {
			fail(fmt.Sprintf("C20:logout-count-%d", min(logouts[s], 2)), fmt.Sprintf("session %d received %d Logout calls", s, logouts[s]), nil)
			return
		}
	}
	if ctx.WantSample("order/" + c.Transfer) {
		ctx.Sample("order/"+c.Transfer, map[string]any{"order": c.Order, "transfer": c.Transfer, "events": len(rig.Log.Events())})
	}
}

// c20WaitLogouts waits until every created session has been logged out (handlers are not
// joined by Server.Close, so the log is polled); false when the watchdog expires.
func c20WaitLogouts(l *rec.Log) bool {
	deadline := time.Now().Add(wire.Watchdog)
	for {
		sessions, logouts := map[int]bool{}, map[int]bool{}
		begun, ended := 0, 0
		for _, e := range l.Events() {
			if e.Kind == "NewSession" {
				if e.Ph == "b" {
					begun++
				} else {
					ended++
					if e.Err == "" {
						sessions[e.Sess] = true
					}
				}
			}
			if e.Kind == "Logout" && e.Ph == "e" {
				logouts[e.Sess] = true
			}
		}
		ok := begun == ended
		for s := range sessions {
			if !logouts[s] {
				ok = false
			}
		}
		if ok {
			for i := 0; i < 200; i++ {
				runtime.Gosched()
			}
			return true
		}
		if time.Now().After(deadline) {
			return false
		}
		time.Sleep(200 * time.Microsecond)
	}
}

func c20WaitConnClosed(l *rec.Log) {
	deadline := time.Now().Add(wire.Watchdog)
	for time.Now().Before(deadline) {
		for _, e := range l.Events() {
			if e.Kind == "close" && e.A == "s2c" {
				for i := 0; i < 100; i++ {
					runtime.Gosched()
				}
				return
			}
		}
		time.Sleep(200 * time.Microsecond)
	}
}

func c20InCallback(ctx *core.Ctx, c c20Case) {
	icClass := "c20incallback" // one class: a lock held across a callback shows in the first case that hangs
	if gaveUp(icClass) {
		ctx.Add("cases_skipped_after_an_established_hang", 1)
		return
	}
	ctx.Eval(fmt.Sprintf("incallback|%s|%v|%d", c.Callback, c.Direct, c.Seed), true)
	rig := newRig(modeSMTP, nil)
	gate := rec.NewGate()
	defer gate.OpenAll()
	var once sync.Once
	hit := func(name string) {
		if name != c.Callback {
			return
		}
		once.Do(func() {
			if c.Direct {
				rig.Srv.Close()
				return
			}
			gate.Wait("cb")
		})
	}
	// every callback also asks the connection about itself, as backends do for logging and
	// policy (remote address, TLS state, greeting name): no callback is made in a state in which
	// these accessors block
	query := func(cn *smtp.Conn, sess int) {
		if cn == nil {
			rig.BE.Lock()
			cn = rig.BE.Conns[sess]
			rig.BE.Unlock()
		}
		if cn != nil {
			cn.TLSConnectionState()
			if nc := cn.Conn(); nc != nil {
				_ = nc.RemoteAddr()
			}
			_ = cn.Hostname()
			_ = cn.Server()
		}
	}
	rig.BE.H.NewSession = func(cn *smtp.Conn, sess int) error { query(cn, sess); hit("NewSession"); return nil }
	rig.BE.H.Mail = func(sess int, _ string, _ *smtp.MailOptions) error { query(nil, sess); hit("Mail"); return nil }
	rig.BE.H.Rcpt = func(sess int, _ string, _ *smtp.RcptOptions) error { query(nil, sess); hit("Rcpt"); return nil }
	rig.BE.H.Data = func(sess int, r *rec.Reader, st smtp.StatusCollector) error {
		query(nil, sess)
		hit("Data")
		r.ReadAll(32)
		return nil
	}
	rig.BE.H.Reset = func(sess int) { query(nil, sess); hit("Reset") }
	rig.BE.H.Logout = func(sess int) error { query(nil, sess); hit("Logout"); return nil }
	p := rig.Dial()
	// the client keeps pipelining a whole session
	p.SendStr("EHLO c.test\r\nMAIL FROM:<s@x.test>\r\nRCPT TO:<r@x.test>\r\nBDAT 3 LAST\r\nabcRSET\r\nMAIL FROM:<s2@x.test>\r\nRCPT TO:<r2@x.test>\r\nDATA\r\nbody\r\n.\r\nQUIT\r\n")
	closeDone := make(chan struct{})
	if !c.Direct {
		gate.WaitParked("cb")
		go func() {
			defer close(closeDone)
			rig.Srv.Close()
		}()
		for i := 0; i < 50+int(c.Seed)*100; i++ {
			runtime.Gosched()
		}
		if c.Seed%2 == 1 {
			time.Sleep(time.Millisecond)
		}
		gate.OpenAll()
		select {
		case <-closeDone:
		case <-time.After(wire.Watchdog):
			giveUp(icClass)
			lines, blocked := c20Blocked()
			if blocked {
				ctx.Violate("C20:close-deadlock:"+c.Callback, fmt.Sprintf("Server.Close does not return while/after a %s callback was in progress", c.Callback), c, append(rig.Log.Strings(60), lines...))
			} else {
				ctx.Inconclusive("C20 incallback watchdog")
			}
			return
		}
	}
	p.ReadAll()
	p.Close()
	if _, ret := rig.CloseBounded(); !ret {
		giveUp(icClass)
		lines, blocked := c20Blocked()
		if blocked {
			ctx.Violate("C20:close-deadlock:"+c.Callback, fmt.Sprintf("Server.Close does not return: a %s callback that itself closes the server (direct=%v) left a lock held", c.Callback, c.Direct), c, append(rig.Log.Strings(60), lines...))
		} else {
			ctx.Inconclusive("C20 incallback Close watchdog")
		}
		return
	}
	if _, ok := rig.WaitServe(); !ok {
		lines, blocked := c20Blocked()
		if blocked {
			ctx.Violate("C20:serve-does-not-return", "Serve did not return after Close", c, append(rig.Log.Strings(60), lines...))
		} else {
			ctx.Inconclusive("C20 incallback Serve watchdog")
		}
		return
	}
	waitDataEnds(rig.Log)
	c20WaitConnClosed(rig.Log)
	c20WaitLogouts(rig.Log)
	logouts := 0
	for _, e := range rig.Log.Events() {
		if e.Kind == "Logout" && e.Ph == "b" {
			logouts++
		}
	}
	sessions := len(eventsOf(rig.Log.Events(), "NewSession", "e"))
	if logouts != sessions {
		ctx.Violate(fmt.Sprintf("C20:logout-count-%d", min(logouts, 2)), fmt.Sprintf("%d sessions, %d Logout calls [callback=%s direct=%v]", sessions, logouts, c.Callback, c.Direct), c, rig.Log.Strings(80))
		return
	}
	if ctx.WantSample("incallback/" + c.Callback) {
		ctx.Sample("incallback/"+c.Callback, map[string]any{"callback": c.Callback, "direct": c.Direct, "logouts": logouts})
	}
}

// ---- concurrent Close/Shutdown, linearizability

type c20Op struct {
	Caller string
}

type c20Res struct {
	Err string
}

func c20Concurrent(ctx *core.Ctx, c c20Case) {
	ctx.Eval(fmt.Sprintf("concurrent|%v|%v|%d|%d", c.Callers, c.LErr, c.NList, c.Seed), true)
	l := rec.NewLog()
	be := rec.NewBackend(l, rec.Plain)
	srv := smtp.NewServer(be)
	srv.ErrorLog = l
	lerr := errors.New("listener close failed v#lerr")
	var listeners []*memconn.Listener
	serveDone := make(chan error, c.NList)
	for i := 0; i < c.NList; i++ {
		ml := memconn.NewListener()
		if c.LErr && i == 0 {
			ml.CloseErr = lerr
		}
		listeners = append(listeners, ml)
		go func() { serveDone <- srv.Serve(ml) }()
	}
	for _, ml := range listeners {
		ml.WaitAccepting()
	}
	var clock atomic.Int64
	ops := make([]porcupine.Operation, len(c.Callers))
	var wg sync.WaitGroup
	start := make(chan struct{})
	for i, who := range c.Callers {
		wg.Add(1)
		go func(i int, who string) {
			defer wg.Done()
			<-start
			call := clock.Add(1)
			var err error
			if who == "Close" {
				err = srv.Close()
			} else {
				sctx, cancel := context.WithTimeout(context.Background(), wire.Watchdog)
				err = srv.Shutdown(sctx)
				cancel()
			}
			ret := clock.Add(1)
			es := "nil"
			if err != nil {
				es = err.Error()
			}
			ops[i] = porcupine.Operation{ClientId: i, Input: c20Op{who}, Call: call, Output: c20Res{es}, Return: ret}
		}(i, who)
	}
	close(start)
	doneAll := make(chan struct{})
	go func() { wg.Wait(); close(doneAll) }()
	select {
	case <-doneAll:
	case <-time.After(2 * wire.Watchdog):
		lines, blocked := c20Blocked()
		if blocked {
			ctx.Violate("C20:concurrent-close-deadlock", fmt.Sprintf("concurrent %v do not all return", c.Callers), c, lines)
		} else {
			ctx.Inconclusive("C20 concurrent watchdog")
		}
		return
	}
	for i := 0; i < c.NList; i++ {
		select {
		case err := <-serveDone:
			if err != nil {
				ctx.Violate("C20:serve-result-after-close", fmt.Sprintf("Serve returned %v after Close/Shutdown (expected nil)", err), c, l.Strings(20))
				return
			}
		case <-time.After(wire.Watchdog):
			lines, blocked := c20Blocked()
			if blocked {
				ctx.Violate("C20:serve-does-not-return", fmt.Sprintf("%d of %d Serve calls did not return after Close/Shutdown", c.NList-i, c.NList), c, lines)
			} else {
				ctx.Inconclusive("C20 concurrent Serve watchdog")
			}
			return
		}
	}
	for _, ml := range listeners {
		if !ml.IsClosed() {
			ctx.Violate("C20:listener-left-open", "a listener is still open after Close/Shutdown", c, nil)
			return
		}
	}
	firstResult := "nil"
	if c.LErr {
		firstResult = lerr.Error()
	}
	model := porcupine.Model{
		Init: func() interface{} { return false },
		Step: func(state, input, output interface{}) (bool, interface{}) {
			closed := state.(bool)
			out := output.(c20Res)
			if !closed {
				return out.Err == firstResult, true
			}
			return out.Err == smtp.ErrServerClosed.Error(), true
		},
		DescribeOperation: func(input, output interface{}) string {
			return fmt.Sprintf("%s -> %s", input.(c20Op).Caller, output.(c20Res).Err)
		},
	}
	res, _ := porcupine.CheckOperationsVerbose(model, ops, 30*time.Second)
	ctx.Add("histories_checked_by_porcupine", 1)
	ctx.Add("operations_in_histories", int64(len(ops)))
	switch res {
	case porcupine.Illegal:
		var hs []string
		for _, o := range ops {
			hs = append(hs, fmt.Sprintf("client %d: %s call=%d return=%d -> %s", o.ClientId, o.Input.(c20Op).Caller, o.Call, o.Return, o.Output.(c20Res).Err))
		}
		ctx.Violate("C20:close-shutdown-not-linearizable", fmt.Sprintf("the history of concurrent Close/Shutdown calls is not linearizable against 'first gets %q, later get ErrServerClosed'", firstResult), c, hs)
	case porcupine.Unknown:
		ctx.Inconclusive("C20 porcupine timeout")
	default:
		if ctx.WantSample("concurrent") {
			var hs []string
			for _, o := range ops {
				hs = append(hs, fmt.Sprintf("%s[%d,%d]->%s", o.Input.(c20Op).Caller, o.Call, o.Return, o.Output.(c20Res).Err))
			}
			ctx.Sample("concurrent", map[string]any{"history": hs, "listeners": c.NList, "listener_close_error": c.LErr})
		}
	}
}

func c20Accept(ctx *core.Ctx, c c20Case) {
	ctx.Eval(fmt.Sprintf("accept|%v|%v|%v", c.Accept, c.Direct, c.LErr), true)
	l := rec.NewLog()
	srv := smtp.NewServer(rec.NewBackend(l, rec.Plain))
	srv.ErrorLog = l
	ml := memconn.NewListener()
	ml.TempAfterClose = c.LErr
	serveDone := make(chan error, 1)
	firstPerm := -1
	for i, a := range c.Accept {
		if a == "temp" {
			ml.PushErr(memconn.TempErr{N: i})
		} else {
			ml.PushErr(memconn.PermErr{N: i})
			if firstPerm < 0 {
				firstPerm = i
			}
		}
	}
	go func() { serveDone <- srv.Serve(ml) }()
	fail := func(sig, msg string) {
		ctx.Violate(sig, msg+fmt.Sprintf(" [accept errors=%v]", c.Accept), c, l.Strings(30))
	}
	if firstPerm >= 0 {
		select {
		case err := <-serveDone:
			var pe memconn.PermErr
			if !errors.As(err, &pe) || pe.N != firstPerm {
				fail("C20:serve-accept-result", fmt.Sprintf("Serve returned %v, expected the first permanent Accept error (#%d)", err, firstPerm))
				return
			}
		case <-time.After(wire.Watchdog):
			fail("C20:serve-ignores-permanent-accept-error", "Serve did not return on a permanent Accept error")
			return
		}
		srv.Close()
	} else {
		ml.WaitDrained()
		// Serve must still be serving: a connection pushed now is handled
		cEnd, sEnd := memconn.Pipe(l)
		cEnd.SetWatchdog(wire.Watchdog)
		ml.Push(sEnd)
		buf := make([]byte, 64)
		n, err := cEnd.Read(buf)
		if err != nil || !strings.HasPrefix(string(buf[:n]), "220") {
			fail("C20:serve-died-on-temporary-accept-error", fmt.Sprintf("after %d temporary Accept errors a new connection was not served: %q %v", len(c.Accept), buf[:n], err))
			srv.Close()
			return
		}
		select {
		case err := <-serveDone:
			fail("C20:serve-died-on-temporary-accept-error", fmt.Sprintf("Serve returned %v on temporary Accept errors", err))
			return
		default:
		}
		cEnd.Close()
		if c.Direct {
			// every connection has ended: Shutdown must return nil without waiting for its context
			sctx, cancel := context.WithCancel(context.Background())
			sd := make(chan error, 1)
			go func() { sd <- srv.Shutdown(sctx) }()
			select {
			case err := <-sd:
				cancel()
				if err != nil {
					fail("C20:shutdown-result", fmt.Sprintf("Shutdown with no active connection returned %v", err))
					return
				}
			case <-time.After(wire.Watchdog):
				lines, blocked := c20Blocked()
				cancel()
				if blocked || len(lines) == 0 {
					fail("C20:shutdown-does-not-return", fmt.Sprintf("after %d temporary Accept errors and with no active connection Shutdown does not return", len(c.Accept)))
				} else {
					ctx.Inconclusive("C20 accept/Shutdown watchdog")
				}
				return
			}
			select {
			case err := <-serveDone:
				if err != nil {
					fail("C20:serve-result-after-close", fmt.Sprintf("Serve returned %v after Shutdown", err))
				}
			case <-time.After(wire.Watchdog):
				fail("C20:serve-does-not-return", "Serve did not return after Shutdown")
			}
			return
		}
		if err := srv.Close(); err != nil {
			fail("C20:close-result", fmt.Sprintf("Close returned %v", err))
			return
		}
		select {
		case err := <-serveDone:
			if err != nil {
				fail("C20:serve-result-after-close", fmt.Sprintf("Serve returned %v after Close", err))
				return
			}
		case <-time.After(wire.Watchdog):
			fail("C20:serve-does-not-return", "Serve did not return after Close")
			return
		}
		if err := srv.Close(); !errors.Is(err, smtp.ErrServerClosed) {
			fail("C20:second-close", fmt.Sprintf("a second Close returned %v, expected ErrServerClosed", err))
			return
		}
		if err := srv.Shutdown(context.Background()); !errors.Is(err, smtp.ErrServerClosed) {
			fail("C20:second-close", fmt.Sprintf("Shutdown after Close returned %v, expected ErrServerClosed", err))
			return
		}
	}
	if ctx.WantSample("accept") {
		ctx.Sample("accept", map[string]any{"accept_errors": c.Accept})
	}
}

// c20Replay runs cases of other generators purely for race coverage; their own verdicts are discarded.
func c20Replay(ctx *core.Ctx, c c20Case) {
	ctx.Eval(fmt.Sprintf("replay|%d", c.Seed), true)
	scratch := core.NewCtx("scratch", "scratch", "quick", ctx.Seed)
	r := core.NewRand(ctx.Seed, 205, c.Seed)
	switch c.Seed % 3 {
	case 0:
		cf := histConfs[r.Intn(len(histConfs))]
		var h []string
		if cf.Mode.lmtp() {
			h = append(h, "LHLO")
		} else {
			h = append(h, "EHLO")
		}
		for len(h) < 10 {
			h = append(h, histAlphabet[r.Intn(len(histAlphabet))])
		}
		hc := hcase{Mode: cf.Mode, MaxRcpt: cf.MaxRcpt, MaxBytes: cf.MaxBytes, Hist: h, Disc: "pipe", CutSeed: c.Seed}
		histExecBurst(hc)
		histExecLock(hc)
	case 1:
		msg := []byte("\r\n.\r\nQUIT\r\nabcdefgh")
		c05Exec(scratch, c05Case{Msg: msg, Chunks: []int{r.Intn(5), len(msg) - 4, 4 - 0}[0:0], Seg: "one", Mode: modeSMTP})
		a := r.Intn(len(msg))
		c05Exec(scratch, c05Case{Msg: msg, Chunks: []int{a, len(msg) - a}, Seg: []string{"glued", "split", "one"}[r.Intn(3)], Mode: []srvMode{modeSMTP, modeLMTPRcpt}[r.Intn(2)], ExtraLast: r.Bool(), NoLast: []string{"", "", "QUIT", "disconnect"}[r.Intn(4)]})
	default:
		rc := [][]string{{"a"}, {"a", "b"}, {"a", "a", "b"}, {"b", "a", "b", "a"}}[r.Intn(4)]
		var calls []c13Call
		for _, a := range rc {
			if r.Bool() {
				calls = append(calls, c13Call{Addr: a})
			}
		}
		c13Exec(scratch, c13Case{Rcpts: rc, Calls: calls, Timing: []string{"before", "after", "interleaved"}[r.Intn(3)], RetErr: r.Bool(), Transfer: []string{"data", "bdat1", "bdat3"}[r.Intn(3)], Backend: "lmtp", Panic: []string{"", "", "aftercalls", "late"}[r.Intn(4)]})
	}
}

// c20Stalled: a connection that has not got past its implicit TLS handshake (or is simply idle)
// when Close fires must be ended by Close; Shutdown must wait for it and return once the peer
// goes away. No handler may stay behind.
func c20Stalled(ctx *core.Ctx, c c20Case) {
	class := "c20stalled|" + c.Transfer + "|" + c.Callback
	if gaveUp(class) {
		ctx.Add("cases_skipped_after_an_established_hang", 1)
		return
	}
	ctx.Eval(fmt.Sprintf("stalled|%s|%s|%d", c.Transfer, c.Callback, c.Seed), true)
	rig := newRig(modeSMTP, func(s *smtp.Server) {
		if strings.HasPrefix(c.Transfer, "starttls") {
			s.TLSConfig = wire.ServerTLS()
		}
	})
	cEnd, sEnd := memconn.Pipe(rig.Log)
	cEnd.SetWatchdog(wire.Watchdog)
	isTLS := strings.HasPrefix(c.Transfer, "tls")
	switch {
	case c.Transfer == "accepted-at-close":
		// the pending Accept hands this connection out at the very moment Close / Shutdown closes
		// the listener: it must be dropped, or - by Shutdown - served to its end, but not left
		// open behind a Close / Shutdown that has returned
		rig.L.WaitAccepting()
		rig.L.PushAtClose(sEnd)
	case isTLS:
		rig.L.Push(tls.Server(sEnd, wire.ServerTLS()))
	default:
		rig.L.Push(sEnd)
	}
	switch c.Transfer {
	case "tls-half":
		cEnd.Write([]byte{22, 3, 1, 0, 200, 1, 0}) // the beginning of a ClientHello record, then silence
	case "plain-greeted":
		buf := make([]byte, 256)
		cEnd.Read(buf)
		cEnd.Write([]byte("EHLO c.test\r\n"))
	case "write-blocked":
		// the peer stops reading with the window full: the server's next reply cannot be written
		buf := make([]byte, 256)
		cEnd.Read(buf)
		sEnd.BlockWrites()
		cEnd.Write([]byte("EHLO c.test\r\n"))
	case "starttls-stalled", "starttls-half":
		// STARTTLS is accepted (220) and then the peer never sends / never finishes its ClientHello:
		// the server waits inside the handshake
		buf := make([]byte, 256)
		cEnd.Read(buf)
		cEnd.Write([]byte("EHLO c.test\r\n"))
		cEnd.WaitPeerIdle(wire.Watchdog)
		cEnd.Write([]byte("STARTTLS\r\n"))
		if c.Transfer == "starttls-half" {
			cEnd.WaitPeerIdle(wire.Watchdog)
			cEnd.Write([]byte{22, 3, 1, 0, 200, 1, 0})
		}
	}
	rig.L.WaitDrained()
	if c.Transfer == "accepted-at-close" {
		// nothing to wait for: the connection does not exist for the server yet
	} else if c.Transfer == "just-accepted" {
		// Accept has just handed the connection out: its goroutine may not even have started
		for i := 0; i < int(c.Seed%4)*3; i++ {
			runtime.Gosched()
		}
	} else if c.Transfer == "write-blocked" {
		parked := false
		for i := 0; i < 20000 && !parked; i++ {
			parked = sEnd.WritersParked() > 0
			if !parked {
				time.Sleep(100 * time.Microsecond)
			}
		}
		if !parked {
			cEnd.Close()
			rig.CloseBounded()
			ctx.Inconclusive("C20 stalled: the server did not start writing its reply")
			return
		}
	} else if idle, err := cEnd.WaitPeerIdle(wire.Watchdog); err != nil || !idle {
		cEnd.Close()
		rig.CloseBounded()
		ctx.Inconclusive("C20 stalled: server did not park")
		return
	}
	fail := func(sig, msg string, extra []string) {
		ctx.Violate(sig, msg+fmt.Sprintf(" [state=%s ended by %s]", c.Transfer, c.Callback), c, append(rig.Log.Strings(40), extra...))
	}
	if c.Callback == "Close" {
		cd := make(chan struct{})
		go func() { rig.Srv.Close(); close(cd) }()
		select {
		case <-cd:
		case <-time.After(wire.Watchdog):
			giveUp(class)
			lines, blocked := c20Blocked()
			if blocked || len(lines) == 0 {
				fail("C20:close-does-not-return", "Server.Close does not return while a connection is waiting for its peer", lines)
			} else {
				ctx.Inconclusive("C20 stalled/Close watchdog")
			}
			cEnd.Close()
			return
		}
		// the connection must have been ended by Close: the peer sees EOF
		buf := make([]byte, 512)
		for {
			_, err := cEnd.Read(buf)
			if err == nil {
				continue
			}
			if !isEOF(normNetErr(err)) {
				lines, _ := c20Blocked()
				fail("C20:close-leaves-connection-open", fmt.Sprintf("after Server.Close the connection is still open (read: %v)", err), lines)
				cEnd.Close()
				return
			}
			break
		}
		if _, ok := rig.WaitServe(); !ok {
			fail("C20:serve-does-not-return", "Serve did not return after Close", nil)
		}
		cEnd.Close()
		return
	}
	sctx, cancel := context.WithCancel(context.Background())
	defer cancel()
	sd := make(chan error, 1)
	go func() { sd <- rig.Srv.Shutdown(sctx) }()
	for i := 0; i < 100; i++ {
		runtime.Gosched()
	}
	select {
	case err := <-sd:
		// Legitimate only if the server itself has ended the connection (one that Accept handed
		// out while Shutdown was already under way may be dropped instead of served).
		idle, werr := cEnd.WaitPeerIdle(wire.Watchdog)
		switch {
		case werr != nil:
			ctx.Inconclusive("C20 stalled/Shutdown: cannot tell whether the connection is served")
		case idle:
			fail("C20:shutdown-returned-before-connections-ended", fmt.Sprintf("Shutdown returned %v while a connection was still open and being served", err), nil)
		default:
			ctx.Add("connections_dropped_by_a_shutdown_under_way", 1)
		}
		cEnd.Close()
		return
	default:
	}
	cEnd.Close() // the peer goes away: now Shutdown must return
	select {
	case err := <-sd:
		if err != nil {
			fail("C20:shutdown-result", fmt.Sprintf("Shutdown returned %v after the last connection ended", err), nil)
		}
	case <-time.After(wire.Watchdog):
		giveUp(class)
		lines, blocked := c20Blocked()
		if blocked || len(lines) == 0 {
			fail("C20:shutdown-does-not-return", "the last connection has ended but Shutdown does not return", lines)
		} else {
			ctx.Inconclusive("C20 stalled/Shutdown watchdog")
		}
	}
}

func normNetErr(err error) error {
	if errors.Is(err, io.EOF) || errors.Is(err, net.ErrClosed) {
		return io.EOF
	}
	return err
}
