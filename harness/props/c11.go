package props

import (
	"encoding/json"
	"fmt"
	"sort"
	"strings"
	"time"

	smtp "github.com/emersion/go-smtp"

	"verifharness/core"
	"verifharness/rec"
	"verifharness/ref"
	"verifharness/wire"
)

// C11 — MAIL/RCPT arguments reach the backend exactly as sent, or are refused.

type c11Line struct {
	Line  string `json:"line"`
	Valid bool   `json:"valid"` // constructed from the grammar: expected values below
	// Lenient: the server may refuse the line; if it hands it to the backend, the values must be
	// the expected ones (hexchars above +7F in an xtext value stand for exactly that octet)
	Lenient bool `json:"lenient"`
	// expected backend observation for valid lines
	Mailbox    string   `json:"mailbox"`
	MailboxAlt string   `json:"mailbox_alt"` // accepted alternative (unquoted form of a quoted local-part)
	Size       int64    `json:"size"`
	Body       string   `json:"body"`
	UTF8       bool     `json:"utf8"`
	ReqTLS     bool     `json:"reqtls"`
	Ret        string   `json:"ret"`
	EnvID      string   `json:"envid"`
	HasAuth    bool     `json:"has_auth"`
	Auth       string   `json:"auth"`
	Notify     []string `json:"notify"`
	ORcptType  string   `json:"orcpt_type"`
	ORcpt      string   `json:"orcpt"`
	RRVS       string   `json:"rrvs"` // RFC3339
}

type c11Case struct {
	Conf  int       `json:"conf"` // bit mask: UTF8 REQUIRETLS BINARYMIME DSN RRVS
	Lines []c11Line `json:"lines"`
}

func init() {
	register(&Prop{ID: "C11", Run: c11Run, Replay: func(ctx *core.Ctx, raw json.RawMessage) error {
		return core.ReplayCase(ctx, raw, c11Exec)
	}})
}

func c11Conf(m int) ref.ExtConf {
	return ref.ExtConf{UTF8: m&1 != 0, RequireTLS: m&2 != 0, Binary: m&4 != 0, DSN: m&8 != 0, RRVS: m&16 != 0}
}

var c11Locals = []struct{ raw, unq string }{
	{"user", ""}, {"first.last", ""}, {"a+b", ""}, {"u_v-w", ""}, {"!#$%&'*+-/=?^_`{|}~", ""}, {"x", ""}, {"UPPER.lower", ""},
	{`"a b"`, "a b"}, {`"a\"b"`, `a"b`}, {`"a@b"`, "a@b"}, {`"with>angle"`, "with>angle"}, {`"a\\b"`, `a\b`},
	// long local-parts (64, 65 octets, a 78-octet VERP return path, 200 octets): well-formed paths
	// whatever their length, handed over as sent or refused - never cut
	{strings.Repeat("l", 64), ""}, {strings.Repeat("m", 65), ""}, {"bounce-list-" + strings.Repeat("0123456789", 6) + "=user=x.test", ""}, {strings.Repeat("long.", 39) + "local", ""},
}
var c11Domains = []string{"example.org", "a.b-c.d", "[127.0.0.1]", "[IPv6:::1]", "x", "EXAMPLE.Com", "xn--bcher-kva.example", "example.net.", "a.b.",
	strings.Repeat(strings.Repeat("d", 60)+".", 4) + "example.org", strings.Repeat(strings.Repeat("e", 63)+".", 4) + "test"}

func mixCase(r *core.Rand, s string) string {
	switch r.Intn(3) {
	case 0:
		return strings.ToLower(s)
	case 1:
		return s
	}
	b := []byte(s)
	for i := range b {
		if r.Bool() {
			b[i] = strings.ToLower(string(b[i]))[0]
		}
	}
	return string(b)
}

func c11Mailbox(r *core.Rand, utf8 bool) (raw, exp, alt string) {
	l := c11Locals[r.Intn(len(c11Locals))]
	d := c11Domains[r.Intn(len(c11Domains))]
	if utf8 && r.Chance(1, 4) {
		return "üser@exämple.org", "üser@exämple.org", ""
	}
	raw = l.raw + "@" + d
	exp = raw
	if l.unq != "" {
		alt = l.unq + "@" + d
	}
	return
}

// c11GenMail builds a valid MAIL line using only extensions enabled in conf.
func c11GenMail(r *core.Rand, conf ref.ExtConf) c11Line {
	var l c11Line
	l.Valid = true
	raw, exp, alt := c11Mailbox(r, conf.UTF8)
	path := "<" + raw + ">"
	if r.Chance(1, 8) {
		path, exp, alt = "<>", "", ""
	} else if r.Chance(1, 8) {
		path = "<@relay.test,@b.test:" + raw + ">"
	}
	l.Mailbox, l.MailboxAlt = exp, alt
	line := mixCase(r, "MAIL FROM:") + path
	var params []string
	if r.Chance(1, 2) {
		sizes := []int64{0, 1, 1000, 1<<31 - 1, 1 << 31, 1<<32 - 1, 1 << 32, 5000000000, 1 << 40}
		l.Size = sizes[r.Intn(len(sizes))]
		// size-value = 1*20DIGIT (decimal): leading zeros change nothing
		params = append(params, fmt.Sprintf("%s=%s%d", mixCase(r, "SIZE"), []string{"", "", "", "0", "00"}[r.Intn(5)], l.Size))
	}
	if r.Chance(1, 2) {
		bodies := []string{"7BIT", "8BITMIME"}
		if conf.Binary {
			bodies = append(bodies, "BINARYMIME")
		}
		b := bodies[r.Intn(len(bodies))]
		l.Body = b
		params = append(params, mixCase(r, "BODY")+"="+mixCase(r, b))
	}
	if conf.UTF8 && r.Chance(1, 2) {
		l.UTF8 = true
		params = append(params, mixCase(r, "SMTPUTF8"))
	}
	if conf.RequireTLS && r.Chance(1, 2) {
		l.ReqTLS = true
		params = append(params, mixCase(r, "REQUIRETLS"))
	}
	if conf.DSN && r.Chance(1, 2) {
		l.Ret = []string{"FULL", "HDRS"}[r.Intn(2)]
		params = append(params, mixCase(r, "RET")+"="+mixCase(r, l.Ret))
	}
	if conf.DSN && r.Chance(1, 2) {
		ids := []string{"QQ314159", "a b+c=d", "+", "=", "x", "~!{}", "id with space"}
		l.EnvID = ids[r.Intn(len(ids))]
		params = append(params, mixCase(r, "ENVID")+"="+ref.XtextEncode(l.EnvID))
	}
	if r.Chance(1, 3) {
		l.HasAuth = true
		if r.Chance(1, 3) {
			// "<>" may itself be xtext-encoded, wholly or in part (RFC 4954 section 5: the value is xtext)
			sp := []string{"<>", "<>", "<>", "+3C+3E", "<+3E", "+3C>"}
			params = append(params, mixCase(r, "AUTH")+"="+sp[r.Intn(len(sp))])
		} else {
			auths := []string{"e+mc2@example.com", "user@x.test", "a=b@c.test", `"q u"@c.test`}
			a := auths[r.Intn(len(auths))]
			l.Auth = a
			if a == `"q u"@c.test` {
				l.Auth = `q u@c.test` // go-smtp hands the unquoted local-part here; both forms are accepted below
			}
			params = append(params, mixCase(r, "AUTH")+"="+ref.XtextEncode(a))
		}
	}
	// random order
	for i := len(params) - 1; i > 0; i-- {
		j := r.Intn(i + 1)
		params[i], params[j] = params[j], params[i]
	}
	for _, p := range params {
		line += " " + p
	}
	l.Line = line
	return l
}

func c11GenRcpt(r *core.Rand, conf ref.ExtConf) c11Line {
	var l c11Line
	l.Valid = true
	raw, exp, alt := c11Mailbox(r, conf.UTF8)
	path := "<" + raw + ">"
	if r.Chance(1, 8) {
		path = "<@relay.test:" + raw + ">"
	}
	l.Mailbox, l.MailboxAlt = exp, alt
	line := mixCase(r, "RCPT TO:") + path
	var params []string
	if conf.DSN && r.Chance(1, 2) {
		sets := [][]string{{"NEVER"}, {"SUCCESS"}, {"FAILURE"}, {"DELAY"}, {"SUCCESS", "FAILURE"}, {"FAILURE", "DELAY", "SUCCESS"}, {"DELAY", "SUCCESS"}}
		l.Notify = sets[r.Intn(len(sets))]
		var items []string
		for _, it := range l.Notify {
			items = append(items, mixCase(r, it))
		}
		params = append(params, mixCase(r, "NOTIFY")+"="+strings.Join(items, ","))
	}
	if conf.DSN && r.Chance(1, 2) {
		if r.Chance(1, 2) {
			addrs := []string{"bob@example.com", "a+b@c.test", "x=y@c.test", "sp ace@c.test", "semi;colon@c.test", ";;@c.test"}
			l.ORcptType, l.ORcpt = "RFC822", addrs[r.Intn(len(addrs))]
			params = append(params, mixCase(r, "ORCPT")+"="+mixCase(r, "rfc822")+";"+ref.XtextEncode(l.ORcpt))
		} else {
			l.ORcptType, l.ORcpt = "UTF-8", "bob@example.com"
			enc := "bob@example.com"
			switch r.Intn(5) {
			case 0:
				l.ORcpt = "a+b@c.test"
				enc = `a\x{2B}b@c.test`
			case 1:
				l.ORcpt, enc = "semi;colon@c.test", "semi;colon@c.test"
			case 2, 3:
				// embedded-unicode-char forms at the edges of the RFC 6533 hexpoint ranges
				// (2-, 3-, 4-, 5- and 6-digit forms, both sides of the surrogate gap)
				pts := []rune{0x80, 0xFF, 0x100, 0x416, 0xFFF, 0x1000, 0xCFFF, 0xD000, 0xD7FF, 0xE000, 0xE001, 0xFFFD, 0x10000, 0x1F600, 0xFFFFF, 0x100000, 0x10FFFF}
				pt := pts[r.Intn(len(pts))]
				l.ORcpt = "u" + string(pt) + "v@c.test"
				enc = fmt.Sprintf(`u\x{%X}v@c.test`, pt)
			}
			params = append(params, mixCase(r, "ORCPT")+"="+mixCase(r, "utf-8")+";"+enc)
		}
	}
	if conf.RRVS && r.Chance(1, 2) {
		ts := []string{"2014-04-03T23:01:00Z", "1997-02-12T20:45:50+05:00", "2038-01-19T03:14:08-08:00"}
		l.RRVS = ts[r.Intn(len(ts))]
		v := l.RRVS
		if r.Chance(1, 3) {
			v += ";C"
		}
		params = append(params, mixCase(r, "RRVS")+"="+v)
	}
	for i := len(params) - 1; i > 0; i-- {
		j := r.Intn(i + 1)
		params[i], params[j] = params[j], params[i]
	}
	for _, p := range params {
		line += " " + p
	}
	l.Line = line
	return l
}

func c11Run(ctx *core.Ctx) {
	nValid, shortLen, nSeeds := 48000, 4, 80
	if ctx.Thorough() {
		nValid, shortLen, nSeeds = 3000000, 6, 800
	}
	ctx.Rule = fmt.Sprintf("%d grammar-derived valid MAIL/RCPT lines (quoted and dot-string local-parts, domains and address literals, source routes, every parameter of the enabled extensions in random subsets, orders and letter case) with known decoded values; every single-point mutation (delete / duplicate / replace by each of 14 significant characters) of %d seed lines; ALL strings of length <=%d over {<,>,@,\",\\,SP,:,.,a,=} as the path of MAIL and RCPT; parameters of disabled extensions; all under the 32 extension-flag settings (sampled). An independent conservative classifier (ref.ClassifyLine) marks definitely-invalid lines; valid lines carry their expected values by construction. Non-trivial: the line is judged (valid by construction or definitely invalid); distinct by (flags, line).", nValid, nSeeds, shortLen)
	ctx.Assumptions = []string{"lenient forms (no angle brackets, space after the colon, <postmaster>, duplicate keywords, value on a valueless keyword, unknown ORCPT types, text glued to '>') are not judged", "a quoted local-part may reach the backend verbatim or unquoted"}
	core.RunCases(ctx, func(emit func(c11Case)) {
		batch := func(conf int, lines []c11Line) {
			for len(lines) > 0 {
				n := 25
				if n > len(lines) {
					n = len(lines)
				}
				emit(c11Case{Conf: conf, Lines: lines[:n]})
				lines = lines[n:]
			}
		}
		// valid lines
		per := nValid / 32
		for conf := 0; conf < 32; conf++ {
			var ls []c11Line
			for i := 0; i < per; i++ {
				r := core.NewRand(ctx.Seed, 111, uint64(conf), uint64(i))
				if i%2 == 0 {
					ls = append(ls, c11GenMail(r, c11Conf(conf)))
				} else {
					ls = append(ls, c11GenRcpt(r, c11Conf(conf)))
				}
			}
			batch(conf, ls)
		}
		// lines generated for the all-enabled configuration, sent to servers that lack some of the
		// extensions: valid (with known values) when only enabled extensions are used, otherwise
		// left to the classifier (a parameter of a disabled extension, in any letter case)
		for conf := 0; conf < 31; conf++ {
			var ls []c11Line
			for i := 0; i < per/2; i++ {
				r := core.NewRand(ctx.Seed, 113, uint64(conf), uint64(i))
				var l c11Line
				if i%2 == 0 {
					l = c11GenMail(r, c11Conf(31))
				} else {
					l = c11GenRcpt(r, c11Conf(31))
				}
				cf := c11Conf(conf)
				uses := ref.ExtConf{UTF8: l.UTF8 || strings.Contains(l.Line, "ü"), RequireTLS: l.ReqTLS, Binary: l.Body == "BINARYMIME", DSN: l.Ret != "" || l.EnvID != "" || len(l.Notify) > 0 || l.ORcpt != "", RRVS: l.RRVS != ""}
				if (uses.UTF8 && !cf.UTF8) || (uses.RequireTLS && !cf.RequireTLS) || (uses.Binary && !cf.Binary) || (uses.DSN && !cf.DSN) || (uses.RRVS && !cf.RRVS) {
					l.Valid = false
				}
				ls = append(ls, l)
			}
			batch(conf, ls)
		}
		// parameters of disabled extensions and malformed values
		probes := []string{
			"MAIL FROM:<a@b.test> SMTPUTF8", "MAIL FROM:<a@b.test> REQUIRETLS", "MAIL FROM:<a@b.test> BODY=BINARYMIME", "MAIL FROM:<a@b.test> RET=FULL",
			"MAIL FROM:<a@b.test> ENVID=x", "RCPT TO:<a@b.test> NOTIFY=NEVER", "RCPT TO:<a@b.test> ORCPT=rfc822;a@b", "RCPT TO:<a@b.test> RRVS=2014-04-03T23:01:00Z",
			"MAIL FROM:<a@b.test> SIZE=", "MAIL FROM:<a@b.test> SIZE=12x", "MAIL FROM:<a@b.test> SIZE=-1", "MAIL FROM:<a@b.test> BODY=9BIT", "MAIL FROM:<a@b.test> BODY=",
			"MAIL FROM:<a@b.test> RET=ALL", "MAIL FROM:<a@b.test> ENVID=", "MAIL FROM:<a@b.test> ENVID=a+b", "MAIL FROM:<a@b.test> ENVID=a+2", "MAIL FROM:<a@b.test> ENVID=a+2g",
			"MAIL FROM:<a@b.test> AUTH=", "MAIL FROM:<a@b.test> AUTH=a+b", "MAIL FROM:<a@b.test> FOO=1", "MAIL FROM:<a@b.test> FOO", "MAIL FROM:<a@b.test> SIZE=1=2", "MAIL FROM:<a@b.test> SIZE=0x10", "MAIL FROM:<a@b.test> SIZE=1_0", "MAIL FROM:<a@b.test> SIZE=0b11", "MAIL FROM:<a@b.test> SIZE=0o17", "MAIL FROM:<a@b.test> SIZE=+5", "MAIL FROM:<a@b.test> SIZE=1e3", "MAIL FROM:<a@b.test> SIZE=0X1F",
			"MAIL FROM:<a@b.test> ENVID=a=b", "RCPT TO:<a@b.test> NOTIFY=", "RCPT TO:<a@b.test> NOTIFY=NEVER,SUCCESS", "RCPT TO:<a@b.test> NOTIFY=SUCCESS,SUCCESS",
			"RCPT TO:<a@b.test> NOTIFY=SOMETIMES", "RCPT TO:<a@b.test> ORCPT=rfc822", "RCPT TO:<a@b.test> ORCPT=rfc822;", "RCPT TO:<a@b.test> ORCPT=;a@b", "RCPT TO:<a@b.test> ORCPT=rfc822;a+b",
			"RCPT TO:<a@b.test> RRVS=yesterday", "RCPT TO:<a@b.test> RRVS=", "RCPT TO:<a@b.test> BAR=1", "RCPT TO:<a@b.test> SIZE=1", "MAIL FROM:<a@b.test> NOTIFY=NEVER",
			"MAIL FROM:<a@b.test> AUTH=user@example.org+3Ejunk", "MAIL FROM:<a@b.test> AUTH=user@example.org+20junk", "MAIL FROM:<a@b.test> AUTH=u@e.org+09x", "MAIL FROM:<a@b.test> AUTH=<>x", "MAIL FROM:<a@b.test> AUTH=+3Cu@e.org+3E", "MAIL FROM:<a@b.test> AUTH=u@e.org+3E",
			"MAIL FROM:<a@b.test> AUTH=x@y+4", "MAIL FROM:<a@b.test> AUTH=+", "MAIL FROM:<a@b.test> AUTH=a+", "MAIL FROM:<a@b.test> AUTH=+4", "MAIL FROM:<a@b.test> AUTH=+4G",
			"MAIL FROM:<a@b.test> ENVID=+", "MAIL FROM:<a@b.test> ENVID=a+", "MAIL FROM:<a@b.test> ENVID=+4", "MAIL FROM:<a@b.test> ENVID=a+4", "MAIL FROM:<a@b.test> ENVID=+G0",
			"RCPT TO:<a@b.test> ORCPT=rfc822;a+", "RCPT TO:<a@b.test> ORCPT=rfc822;a+4", "RCPT TO:<a@b.test> ORCPT=rfc822;+", "RCPT TO:<a@b.test> ORCPT=rfc822;+4", "RCPT TO:<a@b.test> ORCPT=rfc822;a@b+",
			"MAIL <a@b.test>", "MAIL TO:<a@b.test>", "RCPT FROM:<a@b.test>", "RCPT <a@b.test>", "MAIL FROM:", "RCPT TO:", "MAIL FROM: ", "RCPT TO:<>",
		}
		for conf := 0; conf < 32; conf++ {
			var ls []c11Line
			for _, p := range probes {
				ls = append(ls, c11Line{Line: p})
			}
			// xtext hexchars for octets above 0x7F in the AUTH= mailbox: refused, or decoded to
			// exactly those octets - never to something else
			for _, hx := range []struct{ enc, dec string }{{"ren+E9@example.org", "ren\xe9@example.org"}, {"u+80v@example.org", "u\x80v@example.org"}, {"u+FFv@example.org", "u\xffv@example.org"}, {"ren+C3+A9@example.org", "ren\xc3\xa9@example.org"}} {
				ls = append(ls, c11Line{Line: "MAIL FROM:<a@b.test> AUTH=" + hx.enc, Lenient: true, Mailbox: "a@b.test", HasAuth: true, Auth: hx.dec})
			}
			batch(conf, ls)
		}
		// short strings as the path
		alpha := []string{"<", ">", "@", "\"", "\\", " ", ":", ".", "a", "="}
		var ls []c11Line
		core.Strings(alpha, shortLen, func(parts []string) {
			s := strings.Join(parts, "")
			ls = append(ls, c11Line{Line: "MAIL FROM:" + s}, c11Line{Line: "RCPT TO:" + s})
			if len(ls) >= 50 {
				batch(31, ls)
				ls = nil
			}
		})
		batch(31, ls)
		// single-point mutations of seed lines
		mutAlpha := []byte("<>@\"\\ :.=+;a0\t")
		ls = nil
		for sidx := 0; sidx < nSeeds; sidx++ {
			r := core.NewRand(ctx.Seed, 112, uint64(sidx))
			conf := 31
			var seed c11Line
			if sidx%2 == 0 {
				seed = c11GenMail(r, c11Conf(conf))
			} else {
				seed = c11GenRcpt(r, c11Conf(conf))
			}
			s := seed.Line
			for i := 0; i < len(s); i++ {
				ls = append(ls, c11Line{Line: s[:i] + s[i+1:]}, c11Line{Line: s[:i+1] + s[i:]})
				for _, ch := range mutAlpha {
					if s[i] != ch {
						ls = append(ls, c11Line{Line: s[:i] + string(ch) + s[i+1:]})
					}
				}
			}
			batch(conf, ls)
			ls = nil
		}
	}, c11Exec)
}

func c11Exec(ctx *core.Ctx, c c11Case) {
	conf := c11Conf(c.Conf)
	var rig *wire.Rig
	var p *wire.Peer
	var all []wire.Reply
	alive := true
	open := func() bool {
		alive = true
		rig = wire.NewRig(rec.Plain, func(s *smtp.Server) {
			s.EnableSMTPUTF8, s.EnableREQUIRETLS, s.EnableBINARYMIME, s.EnableDSN, s.EnableRRVS = conf.UTF8, conf.RequireTLS, conf.Binary, conf.DSN, conf.RRVS
		})
		p = rig.Dial()
		all = nil
		if _, err := p.ReadReply(); err != nil {
			return false
		}
		r, err := p.Cmd("EHLO c.test")
		return err == nil && r.Code == 250
	}
	closeConn := func() {
		p.Close()
		rig.Finish()
	}
	cmd := func(line string) (wire.Reply, bool) {
		p.SendStr(line + "\r\n")
		rs, err := p.ReadUntilStall()
		all = append(all, rs...)
		ctx.Add("replies_parsed", int64(len(rs)))
		alive = err == nil
		if len(rs) == 0 {
			return wire.Reply{}, false
		}
		// the first reply is the answer to the line (a second one can only be the error-threshold
		// goodbye); ok also when the server closed afterwards, so that such a line is still judged
		return rs[0], true
	}
	if !open() {
		closeConn()
		ctx.Inconclusive("C11 could not open a connection")
		return
	}
	defer func() { closeConn() }()
	poisons := []string{
		"MAIL FROM:<poison@x.test> SIZE=777 BODY=8BITMIME RET=FULL ENVID=poison AUTH=<> SMTPUTF8 REQUIRETLS X=1=2",
		"RCPT TO:<poison@x.test> NOTIFY=NEVER ORCPT=rfc822;poison@x.test RRVS=2001-01-01T00:00:00Z X=1=2",
		"MAIL FROM:<poison@x.test> SIZE=778 BODY=7BIT ENVID=poison2 AUTH=poison@x.test FOO=bar",
		"RCPT TO:<poison@x.test> NOTIFY=SUCCESS,FAILURE ORCPT=utf-8;poison@x.test BAR",
		"MAIL FROM:<poison@x.test> SIZE=779 RET=HDRS AUTH=<> ENVID=",
		"MAIL FROM:<poison@x.test SIZE=780 BODY=8BITMIME",
	}
	for li, l := range c.Lines {
		if l.Valid && li%3 == 1 {
			// state must not leak from a refused command into the next one
			pl := poisons[(li/3+c.Conf)%len(poisons)]
			if strings.HasPrefix(pl, "RCPT") {
				cmd("MAIL FROM:<s@x.test>")
			}
			if pr, ok := cmd(pl); ok && alive && pr.Class() == 2 {
				cmd("RSET")
			} else if !ok || !alive {
				closeConn()
				if !open() {
					return
				}
			}
			if strings.HasPrefix(pl, "RCPT") {
				cmd("RSET")
			}
		}
		v := ref.Unspecified
		if !l.Valid {
			v = ref.ClassifyLine(l.Line, conf)
		}
		judged := l.Valid || v == ref.Invalid
		ctx.Eval(fmt.Sprintf("%d|%s", c.Conf, l.Line), judged)
		isRcpt := strings.HasPrefix(strings.ToUpper(l.Line), "RCPT")
		if isRcpt {
			if !alive {
				closeConn()
				if !open() {
					return
				}
			}
			if r, ok := cmd("MAIL FROM:<s@x.test>"); !ok || !alive || r.Code != 250 {
				closeConn()
				if !open() {
					return
				}
				continue
			}
		}
		if !alive {
			closeConn()
			if !open() {
				return
			}
		}
		mark := rig.Log.Len()
		r, ok := cmd(l.Line)
		if !ok {
			// no reply at all: reopen, do not judge
			closeConn()
			if !open() {
				return
			}
			continue
		}
		var cb *rec.Event
		for _, e := range rig.Log.Events()[mark:] {
			if e.Ph == "b" && ((e.Kind == "Mail" && !isRcpt) || (e.Kind == "Rcpt" && isRcpt)) {
				ev := e
				cb = &ev
			}
		}
		fail := func(sig, msg string) {
			ctx.Violate(sig, msg+fmt.Sprintf(" [line=%q flags=%+v]", l.Line, conf), c11Case{Conf: c.Conf, Lines: []c11Line{l}}, witness(rig.Log, all[max(0, len(all)-6):]))
		}
		if pm := logPanic(rig.Log.Events()[mark:]); pm != "" {
			fail("C11:recovered-panic", "the line made the server panic: "+pm)
		}
		switch {
		case l.Lenient:
			ctx.Add("lenient_lines_compared_when_accepted", 1)
			if cb != nil {
				if d := c11Diff(l, cb, isRcpt); d != "" {
					fail("C11:backend-values-differ:"+strings.SplitN(d, " ", 2)[0], "the line may be refused, but it was accepted and the backend received different values: "+d)
				}
			}
		case l.Valid:
			ctx.Add("valid_lines_compared", 1)
			if r.Code != 250 || cb == nil {
				sig := "C11:valid-line-refused"
				if l.Size >= 1<<32 {
					sig = "C11:size-over-32-bits-refused"
				}
				fail(sig, fmt.Sprintf("a well-formed line was answered %s (backend called: %v)", r, cb != nil))
				break
			}
			if d := c11Diff(l, cb, isRcpt); d != "" {
				fail("C11:backend-values-differ:"+strings.SplitN(d, " ", 2)[0], "the backend received different values: "+d)
			}
		case v == ref.Invalid:
			ctx.Add("invalid_lines_judged", 1)
			if cb != nil {
				sig := "C11:invalid-line-reached-backend"
				if strings.Count(l.Line, "@") >= 2 && !strings.Contains(l.Line, "\"") && !strings.Contains(l.Line, " AUTH") && !strings.Contains(l.Line, "ORCPT") && !strings.Contains(l.Line, ":@") && !strings.Contains(l.Line, "<@") {
					sig = "C11:domain-contains-at"
				}
				fail(sig, fmt.Sprintf("a definitely invalid line reached the backend as %s(%q) and was answered %s", cb.Kind, cb.A, r))
			} else if r.Class() != 5 {
				fail("C11:invalid-line-not-5xx", fmt.Sprintf("a definitely invalid line was answered %s", r))
			}
		default:
			ctx.Add("unspecified_lines_not_judged", 1)
		}
		if !alive {
			ctx.Add("lines_after_which_the_server_closed", 1)
			closeConn()
			if !open() {
				return
			}
			continue
		}
		if rr, ok := cmd("RSET"); !ok || !alive || rr.Code != 250 {
			closeConn()
			if !open() {
				return
			}
		}
	}
	if ctx.WantSample(fmt.Sprintf("conf%d", c.Conf%4)) && len(c.Lines) > 0 {
		ctx.Sample(fmt.Sprintf("conf%d", c.Conf%4), map[string]any{"flags": fmt.Sprintf("%+v", conf), "first_lines": []string{c.Lines[0].Line, c.Lines[len(c.Lines)-1].Line}, "valid_by_construction": c.Lines[0].Valid})
	}
}

// c11Diff compares the expected values of a valid line with what the backend recorded.
func c11Diff(l c11Line, e *rec.Event, isRcpt bool) string {
	if e.A != l.Mailbox && (l.MailboxAlt == "" || e.A != l.MailboxAlt) {
		return fmt.Sprintf("mailbox got %q want %q", e.A, l.Mailbox)
	}
	if !isRcpt {
		o := e.MailOpts
		if o == nil {
			return "options nil"
		}
		if o.Size != l.Size {
			return fmt.Sprintf("Size got %d want %d", o.Size, l.Size)
		}
		if string(o.Body) != l.Body {
			return fmt.Sprintf("Body got %q want %q", o.Body, l.Body)
		}
		if o.UTF8 != l.UTF8 {
			return fmt.Sprintf("UTF8 got %v want %v", o.UTF8, l.UTF8)
		}
		if o.RequireTLS != l.ReqTLS {
			return fmt.Sprintf("RequireTLS got %v want %v", o.RequireTLS, l.ReqTLS)
		}
		if string(o.Return) != l.Ret {
			return fmt.Sprintf("Return got %q want %q", o.Return, l.Ret)
		}
		if o.EnvelopeID != l.EnvID {
			return fmt.Sprintf("EnvelopeID got %q want %q", o.EnvelopeID, l.EnvID)
		}
		if (o.Auth != nil) != l.HasAuth {
			return fmt.Sprintf("Auth presence got %v want %v", o.Auth != nil, l.HasAuth)
		}
		if o.Auth != nil && *o.Auth != l.Auth && *o.Auth != `"q u"@c.test` {
			return fmt.Sprintf("Auth got %q want %q", *o.Auth, l.Auth)
		}
		return ""
	}
	o := e.RcptOpts
	if o == nil {
		return "options nil"
	}
	var got []string
	for _, n := range o.Notify {
		got = append(got, string(n))
	}
	want := append([]string{}, l.Notify...)
	sort.Strings(got)
	sort.Strings(want)
	if strings.Join(got, ",") != strings.Join(want, ",") {
		return fmt.Sprintf("Notify got %v want %v", got, want)
	}
	if string(o.OriginalRecipientType) != l.ORcptType || o.OriginalRecipient != l.ORcpt {
		return fmt.Sprintf("ORCPT got %q;%q want %q;%q", o.OriginalRecipientType, o.OriginalRecipient, l.ORcptType, l.ORcpt)
	}
	if l.RRVS == "" {
		if !o.RequireRecipientValidSince.IsZero() {
			return fmt.Sprintf("RRVS got %v want zero", o.RequireRecipientValidSince)
		}
	} else {
		t, _ := time.Parse(time.RFC3339, l.RRVS)
		if !o.RequireRecipientValidSince.Equal(t) {
			return fmt.Sprintf("RRVS got %v want %v", o.RequireRecipientValidSince, t)
		}
	}
	return ""
}
