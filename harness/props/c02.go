package props

import (
	"bytes"
	"encoding/json"
	"fmt"
	"strings"
	"time"

	smtp "github.com/emersion/go-smtp"

	"verifharness/core"
	"verifharness/rec"
	"verifharness/ref"
	"verifharness/wire"
)

// C02 — only CRLF.CRLF ends DATA; commands resume exactly after it.

type c02Case struct {
	Body   []byte  `json:"body"` // message stream before the true end marker
	BodyQ  string  `json:"body_q"`
	Read   int     `json:"read"`   // -1 = read everything, else read at most this many octets
	Reject bool    `json:"reject"` // backend returns an error from Data
	Limit  int64   `json:"limit"`  // MaxMessageBytes (0 = none)
	Mode   srvMode `json:"mode"`
	Seg    string  `json:"seg"`  // one | line | cuts
	Cuts   []int   `json:"cuts"` // for Seg == cuts
	// Stall > 0: ReadTimeout is set and, after Stall octets of the message, more than ReadTimeout
	// "elapses" (the read deadline the server has armed, if any, is fired); the peer then carries
	// on sending the rest of the message and the commands behind it.
	Stall int `json:"stall"`
	// Pause: the peer pauses right before the end marker; nothing may have been answered by then
	Pause bool `json:"pause"`
	// LineLimit: Server.MaxLineLength (0 = the default)
	LineLimit int `json:"line_limit"`
}

func init() {
	register(&Prop{ID: "C02", Run: c02Run, Replay: func(ctx *core.Ctx, raw json.RawMessage) error {
		return core.ReplayCase(ctx, raw, c02Exec)
	}})
}

var c02Lookalikes = []string{
	"\n.\n", "\n.\r\n", "\r\n.\n", "\r.\r", "\r\n.\r", "\r\n.\rx\r\n", "\r\n..\r\n", "\r\r\n..\r\n", "\n.\n.\n",
	"\r\n.\n\r\n", "\r\n. \r\n", "\r\n.\x00\r\n", "\n\r.\n\r", "\r\n.\r\r\n", "\r\n.\r.\r\n", "\r\r.\r\n",
}

var c02Baits = []string{
	"MAIL FROM:<bait-1@x.test>", "RCPT TO:<bait-2@x.test>", "QUIT", "RSET", "DATA", "EHLO bait.test",
	"MAIL FROM:<bait-3@x.test>\r\nRCPT TO:<bait-4@x.test>\r\nDATA",
}

const c02Tail = "MAIL FROM:<marker-1@x.test>\r\nRSET\r\nNOOP\r\n"

// c02Valid reports whether body+CRLF.CRLF is exactly one message.
func c02Valid(body []byte) bool {
	st := append(append([]byte{}, body...), "\r\n.\r\n"...)
	_, n, ok := ref.Unstuff(st)
	return ok && n == len(st)
}

func c02Run(ctx *core.Ctx) {
	ctx.Rule = "message bodies assembled from bait command lines and end-of-data look-alikes (LF.LF, LF.CRLF, CRLF.LF, CR.CR, CRLF.CR, CRLF..CRLF, ...), followed by the true CRLF.CRLF and the pipelined commands MAIL(marker)/RSET/NOOP; x backend {read all, read 0/1/half} x {accept, reject} x MaxMessageBytes {none, below, at, above the unstuffed size} x {SMTP, LMTP, LMTP per-recipient} x segmentation {one segment, per line, seeded cuts}; a quarter of the cases with MaxLineLength 5000 / 8192 / 70000 instead of the default; plus the same transfers overtaken by the read timeout (ReadTimeout set, virtual deadline fired right before the first bait line) with the peer carrying on afterwards. Non-trivial: the body contains a look-alike followed by a bait line; distinct by full case."
	ctx.Assumptions = []string{"whether the message is accepted (250/552/554) is not judged here (C06)", "reference end-of-data = first CRLF.CRLF per ref.Unstuff"}
	var bodies [][]byte
	for _, la := range c02Lookalikes {
		for _, b := range c02Baits {
			bodies = append(bodies, []byte("Subject: t\r\n\r\nhello"+la+b+"\r\nmore"))
			if !ctx.Thorough() && len(bodies)%7 == 3 {
				break
			}
		}
	}
	for i, la := range c02Lookalikes {
		b := c02Baits[i%len(c02Baits)]
		bodies = append(bodies, []byte(strings.TrimLeft(la, "\r\n")+b+"\r\n"+b))
		bodies = append(bodies, []byte("x"+la+b+la+c02Baits[(i+1)%len(c02Baits)]+"\r\n"))
		bodies = append(bodies, []byte("x"+la+b))
	}
	nRand := 1200
	if ctx.Thorough() {
		nRand = 90000
	}
	vocab := append(append([]string{}, c02Lookalikes...), c02Baits...)
	vocab = append(vocab, "\r\n", "text", ".", "\r", "\n", "..", "\r\n.")
	for i := 0; i < nRand; i++ {
		r := core.NewRand(ctx.Seed, 21, uint64(i))
		var b []byte
		for k := 2 + r.Intn(7); k > 0; k-- {
			b = append(b, vocab[r.Intn(len(vocab))]...)
		}
		bodies = append(bodies, b)
	}
	core.RunCases(ctx, func(emit func(c02Case)) {
		idx := 0
		for _, body := range bodies {
			if !c02Valid(body) {
				continue
			}
			want, _, _ := ref.Unstuff(append(append([]byte{}, body...), "\r\n.\r\n"...))
			U := int64(len(want))
			limits := []int64{0, U / 2, U - 1, U, U + 10}
			reads := []int{-1, 0, 1, len(want) / 2}
			for _, mode := range []srvMode{modeSMTP, modeLMTP, modeLMTPRcpt} {
				for _, lim := range limits {
					if lim < 0 {
						continue
					}
					for _, rd := range reads {
						for _, rej := range []bool{false, true} {
							idx++
							r := core.NewRand(ctx.Seed, 22, uint64(idx))
							segs := []string{"one", "line", "cuts"}
							if !ctx.Thorough() {
								// rotate segmentation instead of taking the product
								segs = []string{segs[idx%3]}
							}
							for _, sg := range segs {
								c := c02Case{Body: body, BodyQ: fmt.Sprintf("%q", body), Read: rd, Reject: rej, Limit: lim, Mode: mode, Seg: sg}
								if sg == "cuts" {
									n := len(body) + 5 + len(c02Tail)
									for i := 1; i < n; i++ {
										if r.Chance(1, 6) {
											c.Cuts = append(c.Cuts, i)
										}
									}
								}
								if idx%4 == 1 {
									c.LineLimit = []int{8192, 5000, 70000}[(idx/4)%3] // larger than a bufio buffer
								}
								emit(c)
								c.LineLimit = 0
								if rd >= 0 && sg == "one" && (idx/2)%2 == 0 && mode != modeLMTPRcpt {
									// (not with a per-recipient LMTP backend: there every reply is the
									// backend's own statement, relayed as soon as it is made - by design,
									// pinned by the repository's tests)
									// a backend that returns before the end of the message, and a peer that
									// pauses before sending the end marker
									c.Pause = true
									emit(c)
									c.Pause = false
								}
								if rd == -1 && lim == 0 && sg != "cuts" {
									// the same transfer overtaken by the read timeout right before its first
									// bait line (or in the middle of the body)
									c.Stall = len(body) / 2
									for _, b := range c02Baits {
										if i := bytes.Index(body, []byte(b)); i > 0 && i < c.Stall {
											c.Stall = i
										}
									}
									if c.Stall > 0 {
										emit(c)
									}
								}
							}
						}
					}
				}
			}
		}
	}, c02Exec)
}

func c02Exec(ctx *core.Ctx, c c02Case) {
	stream := append(append([]byte{}, c.Body...), "\r\n.\r\n"...)
	want, consumed, ok := ref.Unstuff(stream)
	if !ok || consumed != len(stream) {
		ctx.Broken(fmt.Sprintf("C02 case body contains an end marker: %q", c.Body))
		return
	}
	nontrivial := false
	for _, la := range c02Lookalikes {
		if bytes.Contains(c.Body, []byte(la)) {
			nontrivial = true
		}
	}
	ctx.Eval(fmt.Sprintf("%q|%d|%v|%d|%s|%s|%v|%d", c.Body, c.Read, c.Reject, c.Limit, c.Mode, c.Seg, c.Cuts, c.Stall)+fmt.Sprint("|", c.LineLimit, c.Pause), nontrivial)

	rig := newRig(c.Mode, func(s *smtp.Server) {
		s.MaxMessageBytes = c.Limit
		if c.LineLimit > 0 {
			s.MaxLineLength = c.LineLimit
		}
		if c.Stall > 0 {
			s.ReadTimeout = time.Hour // virtual clock: expires only when the harness fires it
		}
	})
	serverKnobs(rig, fmt.Sprintf("%q|%d|%v|%d|%s|%s", c.Body, c.Read, c.Reject, c.Limit, c.Mode, c.Seg))
	rig.BE.H.Data = func(sess int, r *rec.Reader, st smtp.StatusCollector) error {
		if c.Read < 0 {
			if err := r.ReadAll(512); c.Stall > 0 && err != nil && err.Error() != "EOF" {
				return err // the backend contract: a failed read is reported back
			}
		} else {
			r.ReadN(c.Read, 7)
		}
		if c.Reject {
			return &smtp.SMTPError{Code: 554, EnhancedCode: smtp.EnhancedCode{5, 6, 0}, Message: "v#1 rejected"}
		}
		return nil
	}
	p := rig.Dial()
	nrcpt := 1
	pre := c.Mode.hello() + "\r\nMAIL FROM:<s@x.test>\r\nRCPT TO:<r1@x.test>\r\n"
	if c.Mode.lmtp() {
		pre += "RCPT TO:<r2@x.test>\r\n"
		nrcpt = 2
	}
	// glued: the client does not wait for the 354 - DATA, the message and what follows it arrive
	// in one segment (half of the one-segment cases; decided by the case itself)
	glue := c.Seg == "one" && c.Stall == 0 && !c.Pause && core.HashStr(fmt.Sprintf("%q|%d|%v|%d|%s", c.Body, c.Read, c.Reject, c.Limit, c.Mode))%2 == 0
	if !glue {
		pre += "DATA\r\n"
	}
	p.SendStr(pre)
	nhead := 4 + nrcpt
	if glue {
		nhead--
	}
	head, err := expect(p, nhead)
	if err != nil || (!glue && head[len(head)-1].Code != 354) {
		p.Close()
		rig.Finish()
		if isWatchdog(err) {
			ctx.Inconclusive("C02 preamble watchdog")
			return
		}
		ctx.Violate("C02:preamble", fmt.Sprintf("preamble did not reach 354: err=%v codes=%s", err, codes(head)), c, witness(rig.Log, head))
		return
	}
	full := append(append([]byte{}, stream...), c02Tail...)
	fired := false
	if c.Stall > 0 && c.Stall < len(c.Body) {
		p.Send(full[:c.Stall])
		full = full[c.Stall:]
		if idle, werr := p.Raw.WaitPeerIdle(wire.Watchdog); werr != nil || !idle {
			p.Close()
			rig.Finish()
			ctx.Inconclusive("C02 stall: the server did not go idle inside the message")
			return
		}
		fired = p.SrvEnd.FireReadDeadline()
		if fired {
			rig.Log.Act("read deadline fired inside the message")
			ctx.Add("read_deadlines_fired_inside_a_message", 1)
		}
	}
	var early []wire.Reply
	if c.Pause && !fired {
		p.Send(c.Body)
		full = full[len(c.Body):]
		var perr error
		early, perr = p.ReadUntilStall()
		positive := false
		for _, r := range early {
			if r.Class() == 2 {
				positive = true
			}
		}
		if positive {
			p.Close()
			rig.Finish()
			ctx.Violate("C02:reply-before-end-of-data", fmt.Sprintf("the end marker has not been sent yet, but the server has already answered positively: %s (%v) [body=%q read=%d reject=%v limit=%d mode=%s]", codes(early), perr, c.Body, c.Read, c.Reject, c.Limit, c.Mode), c, witness(rig.Log, append(head, early...)))
			return
		}
	}
	if glue {
		full = append([]byte("DATA\r\n"), full...)
		ctx.Add("messages_glued_to_the_DATA_command", 1)
	}
	switch c.Seg {
	case "one":
		p.Send(full)
	case "line":
		for len(full) > 0 {
			i := bytes.IndexByte(full, '\n')
			if i < 0 {
				i = len(full) - 1
			}
			p.Send(full[:i+1])
			full = full[i+1:]
		}
	default:
		p.SendSegs(core.Split(full, c.Cuts))
	}
	p.SendStr("QUIT\r\n")
	tail, err := p.ReadAll()
	tail = append(early, tail...) // (negative) replies that arrived during the pause
	if glue && len(tail) > 0 && tail[0].Code == 354 {
		head = append(head, tail[0])
		tail = tail[1:]
	}
	p.Close()
	fin := rig.Finish()
	if isWatchdog(err) || !fin {
		ctx.Inconclusive(fmt.Sprintf("C02 watchdog body=%q", c.Body))
		return
	}
	ev := rig.Log.Events()
	ctx.Add("backend_events", countBackendEvents(ev))
	ctx.Add("replies_parsed", int64(len(head)+len(tail)))
	fail := func(sig, msg string) {
		ctx.Violate(sig, msg+fmt.Sprintf(" [body=%q read=%d reject=%v limit=%d mode=%s seg=%s cuts=%v stall=%d linelimit=%d]", c.Body, c.Read, c.Reject, c.Limit, c.Mode, c.Seg, c.Cuts, c.Stall, c.LineLimit), c, witness(rig.Log, append(head, tail...)))
	}
	// (1) no octet of the message executed as a command
	sawData := false
	firstMailAfter := ""
	markerMails := 0
	for _, e := range ev {
		if e.Ph != "b" {
			continue
		}
		switch e.Kind {
		case "Mail", "Rcpt":
			if strings.HasPrefix(e.A, "bait") {
				fail("C02:bait-executed", fmt.Sprintf("message text was executed as a command: %s(%q)", e.Kind, e.A))
				return
			}
			if e.Kind == "Mail" && sawData {
				if firstMailAfter == "" {
					firstMailAfter = e.A
				}
				if e.A == "marker-1@x.test" {
					markerMails++
				}
			}
		case "Data", "LMTPData":
			sawData = true
		}
	}
	des := dataEnds(ev)
	if len(des) != 1 {
		fail("C02:data-calls", fmt.Sprintf("expected one Data call, saw %d", len(des)))
		return
	}
	d := des[0]
	// (2) the reader never reported EOF early and never yielded octets outside the message
	if !bytes.HasPrefix(want, []byte(d.A)) {
		fail("C02:octets-outside-message", fmt.Sprintf("backend read %q which is not a prefix of the message %q", d.A, want))
		return
	}
	if d.B == "EOF" && d.A != string(want) {
		fail("C02:early-eof", fmt.Sprintf("reader reported EOF after %d of %d message octets", len(d.A), len(want)))
		return
	}
	if fired {
		// The transfer was overtaken by the read timeout. Whether the server gives the connection
		// up or skips to the end marker is its choice; in neither case may message text have run as
		// commands (checked above), and if commands are executed again the first one is the marker.
		if firstMailAfter != "" && firstMailAfter != "marker-1@x.test" {
			fail("C02:resync-after-timeout", fmt.Sprintf("after a read timeout inside the message the first MAIL executed was %q", firstMailAfter))
			return
		}
		if d.B == "EOF" {
			fail("C02:early-eof", "the reader reported EOF for a transfer that was cut by the read timeout")
			return
		}
		if ctx.WantSample("stall/" + string(c.Mode)) {
			ctx.Sample("stall/"+string(c.Mode), map[string]any{"body": fmt.Sprintf("%q", c.Body), "stall_at": c.Stall, "backend_read": len(d.A), "term": d.B, "replies_after_354": codes(tail)})
		}
		return
	}
	// (3) replies: finals, then exactly MAIL/RSET/NOOP/QUIT
	if isStalled(err) {
		fail("C02:reply-count", fmt.Sprintf("server stopped replying after %s", codes(tail)))
		return
	}
	wantN := nrcpt + 4
	if len(tail) != wantN {
		fail("C02:reply-count", fmt.Sprintf("after 354 expected %d final + 4 replies (MAIL,RSET,NOOP,QUIT), got %d: %s", nrcpt, len(tail), codes(tail)))
		return
	}
	if got := codes(tail[nrcpt:]); got != "250,250,250,221" {
		fail("C02:resync", fmt.Sprintf("commands after the end marker were answered %s, expected 250,250,250,221", got))
		return
	}
	if firstMailAfter != "marker-1@x.test" || markerMails != 1 {
		fail("C02:resync", fmt.Sprintf("first MAIL executed after the message was %q (marker seen %d times)", firstMailAfter, markerMails))
		return
	}
	cls := fmt.Sprintf("%s/limit=%v", c.Mode, c.Limit != 0)
	if ctx.WantSample(cls) {
		ctx.Sample(cls, map[string]any{"body": fmt.Sprintf("%q", c.Body), "read": c.Read, "reject": c.Reject, "limit": c.Limit, "seg": c.Seg, "backend_read": len(d.A), "term": d.B, "replies_after_354": codes(tail)})
	}
}
