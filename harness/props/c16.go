package props

import (
	"encoding/json"
	"errors"
	"fmt"
	"io"
	"strings"
	"sync/atomic"
	"time"

	smtp "github.com/emersion/go-smtp"

	"verifharness/core"
	"verifharness/rec"
	"verifharness/ref"
	"verifharness/wire"
)

// C16 — a message written through the client arrives intact at a go-smtp backend.

type c16Case struct {
	Body    []byte  `json:"body"`
	BodyQ   string  `json:"body_q"`
	Part    string  `json:"part"` // whole | bytes | split | seeded
	At      int     `json:"at"`
	Cuts    []int   `json:"cuts"`
	Reject  bool    `json:"reject"`
	Mode    srvMode `json:"mode"`
	NRcpt   int     `json:"nrcpt"`
	WT      bool    `json:"wt"`           // Server.WriteTimeout set (ReadTimeout unset) and "time passes" during the body: any read deadline the server armed is fired
	Second  bool    `json:"second"`       // a second message with other recipients follows on the same connection
	Slow    bool    `json:"slow"`         // the server's verdict is slow: while Close waits for it, the deadline armed on the client's connection must be the submission timeout, not the (much shorter) command timeout
	Reclose bool    `json:"reclose"`      // (with Second) the first message's writer is closed once more while the second message's writer is open
	ViaSM   bool    `json:"via_sendmail"` // SMTP only: the first message goes through Client.SendMail (Mail, Rcpt..., Data, io.Copy from a reader that yields the partition, Close)
	SrcFail int     `json:"src_fail"`     // Client.SendMail from a reader that fails (not io.EOF) after At octets: 1 = on a Read of its own, 2 = together with the last octets it yields
	CT      bool    `json:"ct"`           // "time passes" on the client side while the body is being written: any deadline the client left armed on its connection is fired
}

func init() {
	register(&Prop{ID: "C16", Run: c16Run, Replay: func(ctx *core.Ctx, raw json.RawMessage) error {
		return core.ReplayCase(ctx, raw, c16Exec)
	}})
}

func c16Run(ctx *core.Ctx) {
	maxTok, nRand := 6, 6000
	if ctx.Thorough() {
		maxTok, nRand = 9, 400000
	}
	ctx.Rule = fmt.Sprintf("bodies exhaustive over the tokens {'.', LF, CRLF, 'x'} up to %d tokens plus %d seeded 8-bit bodies (CR only inside CRLF) x partitions into Write calls {whole, octet-by-octet, every 2-split (rotating), seeded} x server verdict {accept, reject with token} x {SMTP, LMTP} x 1..3 recipients; real smtp.Client against the real server; Close is called twice; in a third of the cases virtual time passes on the client's connection in the middle of the body (every deadline still armed there expires), in a fifth on the server's. Non-trivial: the body contains a '.' at a line start or a bare LF; distinct by case.", maxTok, nRand)
	ctx.Assumptions = []string{"the empty body is not judged", "reference = ref.DotWriterNormalise (bare LF -> CRLF, final CRLF ensured)"}
	core.RunCases(ctx, func(emit func(c16Case)) {
		idx := 0
		gen := func(body []byte) {
			if len(body) == 0 {
				return
			}
			idx++
			r := core.NewRand(ctx.Seed, 161, uint64(idx))
			mode := modeSMTP
			if idx%6 == 0 {
				mode = modeLMTPRcpt
			} else if idx%6 == 3 {
				mode = modeLMTP
			}
			parts := []string{"whole", "bytes", "split", "seeded"}
			if !ctx.Thorough() {
				parts = []string{parts[idx%4], parts[(idx+1)%4], parts[(idx+2)%4]}
			}
			for pi, pt := range parts {
				c := c16Case{Body: body, BodyQ: fmt.Sprintf("%q", body), Part: pt, Reject: (idx+pi)%2 == 0, Mode: mode, NRcpt: 1 + idx%3,
					WT: (idx+pi)%5 == 2, Second: (idx+pi)%4 == 1, CT: (idx+pi)%3 == 1, Slow: (idx+pi)%7 == 3, Reclose: (idx+pi)%8 == 1, ViaSM: mode == modeSMTP && (idx+pi)%6 == 4}
				switch pt {
				case "split":
					if len(body) < 2 {
						continue
					}
					c.At = 1 + idx%(len(body)-1)
				case "seeded":
					for i := 1; i < len(body); i++ {
						if r.Chance(1, 3) {
							c.Cuts = append(c.Cuts, i)
						}
					}
				}
				emit(c)
			}
		}
		// the source of Client.SendMail fails in the middle: the part that was read must not be
		// handed to the backend as a complete message
		for bi, body := range []string{"one line\r\n", "Subject: x\r\n\r\nfirst line\r\nsecond line\r\n", "no line end", ".\r\n.dot\r\nx", strings.Repeat("0123456789abcdef", 300) + "\r\nlast\r\n"} {
			for _, at := range []int{0, 1, len(body) / 2, len(body) - 1, len(body)} {
				for sf := 1; sf <= 2; sf++ {
					for nr := 1; nr <= 2; nr++ {
						emit(c16Case{Body: []byte(body), BodyQ: fmt.Sprintf("%q", body), Part: "srcfail", At: at, Mode: modeSMTP, NRcpt: nr, SrcFail: sf, Reject: (bi+at+sf)%3 == 0})
					}
				}
			}
		}
		core.Strings([]string{".", "\n", "\r\n", "x"}, maxTok, func(parts []string) { gen([]byte(strings.Join(parts, ""))) })
		for i := 0; i < nRand; i++ {
			r := core.NewRand(ctx.Seed, 162, uint64(i))
			n := 1 + r.Intn(120)
			var b []byte
			for len(b) < n {
				switch r.Intn(8) {
				case 0:
					b = append(b, '.')
				case 1:
					b = append(b, '\n')
				case 2:
					b = append(b, '\r', '\n')
				default:
					ch := byte(r.Intn(256))
					if ch == '\r' {
						ch = 'r'
					}
					b = append(b, ch)
				}
			}
			gen(b)
		}
	}, c16Exec)
}

func c16Exec(ctx *core.Ctx, c c16Case) {
	if c.SrcFail > 0 {
		c16SrcFailExec(ctx, c)
		return
	}
	nontrivial := false
	for i, b := range c.Body {
		if b == '.' && (i == 0 || c.Body[i-1] == '\n') {
			nontrivial = true
		}
		if b == '\n' && (i == 0 || c.Body[i-1] != '\r') {
			nontrivial = true
		}
	}
	ctx.Eval(fmt.Sprintf("%q|%s|%d|%v|%v|%s|%d|%v|%v|%v", c.Body, c.Part, c.At, c.Cuts, c.Reject, c.Mode, c.NRcpt, c.WT, c.Second, c.CT)+fmt.Sprint("|", c.Slow, c.Reclose, c.ViaSM), nontrivial)
	rig := newRig(c.Mode, func(s *smtp.Server) {
		if c.WT {
			s.WriteTimeout = time.Hour // virtual clock: never expires by itself
		}
	})
	gate := rec.NewGate()
	defer gate.OpenAll()
	var nData atomic.Int32
	rig.BE.H.Data = func(sess int, r *rec.Reader, st smtp.StatusCollector) error {
		r.ReadAll(97)
		if c.Slow && nData.Add(1) == 1 {
			gate.Wait("verdict")
		}
		if c.Reject {
			return &smtp.SMTPError{Code: 554, EnhancedCode: smtp.EnhancedCode{5, 6, 0}, Message: "v#m16 rejected"}
		}
		return nil
	}
	p := rig.Dial()
	var cl *smtp.Client
	if c.Mode.lmtp() {
		cl = smtp.NewClientLMTP(p.Raw)
	} else {
		cl = smtp.NewClient(p.Raw)
	}
	fail := func(sig, msg string) {
		ctx.Violate(sig, msg+fmt.Sprintf(" [body=%q part=%s at=%d cuts=%v reject=%v mode=%s nrcpt=%d]", c.Body, c.Part, c.At, c.Cuts, c.Reject, c.Mode, c.NRcpt), c, rig.Log.Strings(80))
	}
	done := func() {
		cl.Close()
		p.Close()
		rig.Finish()
	}
	from := "sender16@x.test"
	var rcpts []string
	if !c.ViaSM {
		if err := cl.Mail(from, nil); err != nil {
			done()
			fail("C16:mail", "Mail failed: "+err.Error())
			return
		}
	}
	for i := 0; i < c.NRcpt; i++ {
		rc := fmt.Sprintf("rcpt16-%d@x.test", i)
		rcpts = append(rcpts, rc)
		if c.ViaSM {
			continue
		}
		if err := cl.Rcpt(rc, nil); err != nil {
			done()
			fail("C16:rcpt", "Rcpt failed: "+err.Error())
			return
		}
	}
	type st struct {
		rcpt string
		err  *smtp.SMTPError
	}
	var statuses []st
	var w interface {
		Write([]byte) (int, error)
		Close() error
	}
	var err error
	if c.ViaSM {
		w = &c16SendMailWriter{cl: cl, from: from, to: rcpts}
	} else if c.Mode.lmtp() {
		w, err = cl.LMTPData(func(rcpt string, status *smtp.SMTPError) { statuses = append(statuses, st{rcpt, status}) })
	} else {
		w, err = cl.Data()
	}
	if err != nil {
		done()
		fail("C16:data", "Data failed: "+err.Error())
		return
	}
	var segs [][]byte
	switch c.Part {
	case "bytes":
		for i := range c.Body {
			segs = append(segs, c.Body[i:i+1])
		}
	case "split":
		segs = [][]byte{c.Body[:c.At], c.Body[c.At:]}
	case "seeded":
		segs = core.Split(c.Body, c.Cuts)
	default:
		segs = [][]byte{c.Body}
	}
	for si, s := range segs {
		if c.WT && si == len(segs)/2 {
			// more than WriteTimeout "elapses" while the client is writing the body: with
			// ReadTimeout unset the server must not be waiting with a read deadline at all
			p.Raw.WaitPeerIdle(wire.Watchdog)
			if p.SrvEnd.FireReadDeadline() {
				rig.Log.Act("a read deadline was armed although ReadTimeout is 0; fired it")
			}
		}
		if c.CT && si == len(segs)/2 {
			// the upload takes longer than CommandTimeout: the deadline of the DATA command
			// exchange must not still be armed on the client's connection
			if p.Raw.FireDeadlines() {
				rig.Log.Act("the client left a deadline armed while the body is written; fired it")
			}
		}
		if _, err := w.Write(s); err != nil {
			done()
			fail("C16:write", "Write failed: "+err.Error())
			return
		}
	}
	var closeErr error
	if c.Slow {
		cl.CommandTimeout, cl.SubmissionTimeout = time.Minute, 100*time.Hour
		cd := make(chan error, 1)
		go func() { cd <- w.Close() }()
		parked := make(chan struct{})
		go func() { gate.WaitParked("verdict"); close(parked) }()
		isParked := false
		select {
		case <-parked:
			isParked = true
		case err := <-cd:
			cd <- err // Close returned without the backend ever holding its verdict back
		case <-time.After(wire.Watchdog):
		}
		// the client now waits for the final reply (parked in Read; nothing in flight)
		if idle, werr := p.SrvEnd.WaitPeerIdle(wire.Watchdog); isParked && werr == nil && idle {
			if t, ok := p.Raw.ReadDeadlineValue(); ok {
				ctx.Add("client_deadlines_inspected_while_waiting_for_the_verdict", 1)
				if left := time.Until(t); left < 50*time.Hour {
					gate.OpenAll()
					<-cd
					done()
					fail("C16:verdict-wait-uses-command-timeout", fmt.Sprintf("while Close waits for the server's verdict the read deadline on the client's connection is %v away (CommandTimeout=1m, SubmissionTimeout=100h): a verdict slower than the command timeout would be reported as an i/o timeout", left.Round(time.Second)))
					return
				}
			}
		}
		gate.Open("verdict")
		closeErr = <-cd
	} else {
		closeErr = w.Close()
	}
	mark := rig.Log.Len()
	closeErr2 := w.Close()
	var wroteAfter []string
	for _, e := range rig.Log.Events()[mark:] {
		if e.Kind == "c2s" {
			wroteAfter = append(wroteAfter, e.A)
		}
	}
	// optional second message with a different recipient list
	var rcpts2 []string
	var closeErr3 error
	var statuses2 []st
	if c.Second {
		if err := cl.Mail("sender16b@x.test", nil); err != nil {
			done()
			fail("C16:second-message", "Mail for the second message failed: "+err.Error())
			return
		}
		for i := 0; i < 1+(c.NRcpt%2); i++ {
			rc := fmt.Sprintf("other16-%d@x.test", i)
			rcpts2 = append(rcpts2, rc)
			if err := cl.Rcpt(rc, nil); err != nil {
				done()
				fail("C16:second-message", "Rcpt for the second message failed: "+err.Error())
				return
			}
		}
		var w2 interface {
			Write([]byte) (int, error)
			Close() error
		}
		var err error
		if c.Mode.lmtp() {
			w2, err = cl.LMTPData(func(rcpt string, status *smtp.SMTPError) { statuses2 = append(statuses2, st{rcpt, status}) })
		} else {
			w2, err = cl.Data()
		}
		if err != nil {
			done()
			fail("C16:second-message", "Data for the second message failed: "+err.Error())
			return
		}
		if c.Reclose {
			// the first message's writer is closed once more while the second message is being
			// written: a local error, nothing on the wire, the second message unharmed
			w2.Write([]byte(".second "))
			m2 := rig.Log.Len()
			if err := w.Close(); err == nil {
				done()
				fail("C16:stale-writer-close", "closing the first message's (already closed) writer while the second message is open returned nil")
				return
			}
			w2.Write([]byte("message body\r\n.dot line\r\n"))
			for _, e := range rig.Log.Events()[m2:] {
				if e.Kind == "c2s" && strings.Contains(e.A, "\r\n.\r\n") {
					done()
					fail("C16:stale-writer-close", "closing the first message's writer again ended the second message on the wire")
					return
				}
			}
		} else {
			w2.Write([]byte(".second message body\r\n.dot line\r\n"))
		}
		closeErr3 = w2.Close()
	}
	quitErr := cl.Quit()
	done()
	ev := rig.Log.Events()
	ctx.Add("backend_events", countBackendEvents(ev))
	des := dataEnds(ev)
	wantCalls := 1
	if c.Second {
		wantCalls = 2
	}
	if len(des) != wantCalls {
		fail("C16:data-calls", fmt.Sprintf("%d Data calls for %d message(s)", len(des), wantCalls))
		return
	}
	want := ref.DotWriterNormalise(c.Body)
	ctx.Add("octets_compared", int64(len(want)))
	if des[0].A != string(want) {
		fail("C16:octets-differ", fmt.Sprintf("backend read %q, expected %q", des[0].A, want))
		return
	}
	if des[0].B != "EOF" {
		fail("C16:terminal-error", fmt.Sprintf("backend reader ended with %q", des[0].B))
		return
	}
	mails := eventsOf(ev, "Mail", "b")
	rcs := eventsOf(ev, "Rcpt", "b")
	var gotR []string
	for _, e := range rcs {
		gotR = append(gotR, e.A)
	}
	if c.Second {
		// split the recipient callbacks at the second Mail
		var r1, r2 []string
		seenMail := 0
		for _, e := range ev {
			if e.Ph != "b" {
				continue
			}
			if e.Kind == "Mail" {
				seenMail++
			}
			if e.Kind == "Rcpt" {
				if seenMail <= 1 {
					r1 = append(r1, e.A)
				} else {
					r2 = append(r2, e.A)
				}
			}
		}
		if len(mails) != 2 || mails[1].A != "sender16b@x.test" || strings.Join(r2, ",") != strings.Join(rcpts2, ",") || des[1].A != ".second message body\r\n.dot line\r\n" {
			fail("C16:second-message-envelope", fmt.Sprintf("second message: backend saw senders %v recipients %v body %q", len(mails), r2, des[1].A))
			return
		}
		if c.Mode.lmtp() {
			if len(statuses2) != len(rcpts2) {
				fail("C16:second-message-result", fmt.Sprintf("second message: %d status callbacks for %d recipients", len(statuses2), len(rcpts2)))
				return
			}
			for i, s := range statuses2 {
				if s.rcpt != rcpts2[i] || (s.err == nil) == c.Reject {
					fail("C16:second-message-result", fmt.Sprintf("second message: status #%d = (%s, %v)", i, s.rcpt, s.err))
					return
				}
			}
		} else if (closeErr3 == nil) == c.Reject {
			fail("C16:second-message-result", fmt.Sprintf("second message: Close returned %v, server verdict reject=%v", closeErr3, c.Reject))
			return
		}
		gotR = r1
	}
	if mails[0].A != from || strings.Join(gotR, ",") != strings.Join(rcpts, ",") {
		fail("C16:envelope-differs", fmt.Sprintf("backend saw sender %v recipients %v", mails, gotR))
		return
	}
	// verdict
	if c.Mode.lmtp() {
		if closeErr != nil {
			fail("C16:close-result", fmt.Sprintf("LMTP Close returned %v", closeErr))
			return
		}
		if len(statuses) != len(rcpts) {
			fail("C16:close-result", fmt.Sprintf("%d status callbacks for %d recipients", len(statuses), len(rcpts)))
			return
		}
		for i, s := range statuses {
			if s.rcpt != rcpts[i] || (s.err == nil) == c.Reject || (s.err != nil && (s.err.Code != 554 || !strings.Contains(s.err.Message, "v#m16"))) {
				fail("C16:close-result", fmt.Sprintf("status #%d = (%s, %v), server verdict reject=%v", i, s.rcpt, s.err, c.Reject))
				return
			}
		}
	} else if c.Reject {
		var se *smtp.SMTPError
		if !errors.As(closeErr, &se) || se.Code != 554 || !strings.Contains(se.Message, "v#m16") {
			fail("C16:close-result", fmt.Sprintf("the server rejected the message (554 v#m16) but Close returned %v", closeErr))
			return
		}
	} else if closeErr != nil {
		fail("C16:close-result", fmt.Sprintf("the server accepted the message but Close returned %v", closeErr))
		return
	}
	// second Close
	if closeErr2 == nil || len(wroteAfter) > 0 {
		sig := "C16:second-close"
		if c.Reject && !c.Mode.lmtp() {
			sig = "C16:second-close-after-reject"
		}
		fail(sig, fmt.Sprintf("second Close returned %v and wrote %q", closeErr2, wroteAfter))
		return
	}
	if quitErr != nil {
		fail("C16:connection-unusable", fmt.Sprintf("Quit after the message failed: %v", quitErr))
		return
	}
	cls := fmt.Sprintf("%s/%v", c.Mode, c.Reject)
	if ctx.WantSample(cls) {
		ctx.Sample(cls, map[string]any{"body": fmt.Sprintf("%q", c.Body), "partition": c.Part, "writes": len(segs), "reject": c.Reject, "backend_read": fmt.Sprintf("%q", des[0].A), "close": fmt.Sprint(closeErr), "second_close": fmt.Sprint(closeErr2)})
	}
}

// c16SendMailWriter lets the Client.SendMail path share the driver of the Data path: Write only
// collects the partition, the first Close runs SendMail with a reader that yields exactly those
// pieces, a later Close is a local error (there is no writer to close twice on this path).
type c16SendMailWriter struct {
	cl   *smtp.Client
	from string
	to   []string
	segs [][]byte
	ran  bool
}

func (w *c16SendMailWriter) Write(b []byte) (int, error) {
	w.segs = append(w.segs, append([]byte{}, b...))
	return len(b), nil
}

func (w *c16SendMailWriter) Close() error {
	if w.ran {
		return errors.New("harness: SendMail has already run")
	}
	w.ran = true
	total := 0
	for _, sg := range w.segs {
		total += len(sg)
	}
	return w.cl.SendMail(w.from, w.to, &c16SegReader{segs: w.segs, eofWithData: total%2 == 1})
}

// c16SegReader yields the pieces one per Read; with eofWithData the last piece comes together
// with io.EOF (as iotest.DataErrReader, HTTP bodies and decoders do), otherwise io.EOF follows on
// a Read of its own.
type c16SegReader struct {
	segs        [][]byte
	eofWithData bool
}

func (r *c16SegReader) Read(p []byte) (int, error) {
	for len(r.segs) > 0 && len(r.segs[0]) == 0 {
		r.segs = r.segs[1:]
	}
	if len(r.segs) == 0 {
		return 0, io.EOF
	}
	n := copy(p, r.segs[0])
	r.segs[0] = r.segs[0][n:]
	if r.eofWithData && len(r.segs) == 1 && len(r.segs[0]) == 0 {
		r.segs = nil
		return n, io.EOF
	}
	return n, nil
}

var errC16Source = errors.New("harness: the message source failed")

// c16FailingReader yields body[:at] in pieces of at most 700 octets and then fails with a non-EOF
// error: on a Read of its own (kind 1) or together with the last piece (kind 2).
type c16FailingReader struct {
	rest []byte
	kind int
}

func (r *c16FailingReader) Read(p []byte) (int, error) {
	if len(r.rest) == 0 {
		return 0, errC16Source
	}
	n := len(r.rest)
	if n > 700 {
		n = 700
	}
	n = copy(p, r.rest[:n])
	r.rest = r.rest[n:]
	if len(r.rest) == 0 && r.kind == 2 {
		return n, errC16Source
	}
	return n, nil
}

// c16SrcFailExec: Client.SendMail is given a reader that fails after At octets. SendMail has to
// report the failure, and whatever the application does next (here: it closes the client), the
// backend must not have been handed the part that was read as a complete message - its reader
// must not end in EOF (the end-to-end face of C07: the client abandons the transfer).
func c16SrcFailExec(ctx *core.Ctx, c c16Case) {
	ctx.Eval(fmt.Sprintf("srcfail|%q|%d|%d|%d|%v", c.Body, c.At, c.SrcFail, c.NRcpt, c.Reject), true)
	rig := newRig(c.Mode, nil)
	rig.BE.H.Data = func(sess int, r *rec.Reader, st smtp.StatusCollector) error {
		r.ReadAll(97)
		if c.Reject {
			return &smtp.SMTPError{Code: 554, EnhancedCode: smtp.EnhancedCode{5, 6, 0}, Message: "v#m16 rejected"}
		}
		return nil
	}
	p := rig.Dial()
	cl := smtp.NewClient(p.Raw)
	var rcpts []string
	for i := 0; i < c.NRcpt; i++ {
		rcpts = append(rcpts, fmt.Sprintf("rcpt16-%d@x.test", i))
	}
	err := cl.SendMail("sender16@x.test", rcpts, &c16FailingReader{rest: append([]byte{}, c.Body[:c.At]...), kind: c.SrcFail})
	cl.Close()
	p.Close()
	rig.Finish()
	waitDataEnds(rig.Log)
	fail := func(sig, msg string) {
		ctx.Violate(sig, msg+fmt.Sprintf(" [body=%q fails-after=%d kind=%d nrcpt=%d]", c.Body, c.At, c.SrcFail, c.NRcpt), c, rig.Log.Strings(80))
	}
	ctx.Add("backend_events", countBackendEvents(rig.Log.Events()))
	if err == nil {
		fail("C16:source-error-not-reported", "SendMail returned nil although its source failed")
		return
	}
	for _, d := range dataEnds(rig.Log.Events()) {
		ctx.Add("octets_compared", int64(len(d.A)))
		if d.B == "EOF" {
			fail("C16:truncated-message-delivered", fmt.Sprintf("the source of SendMail failed after %d of %d octets (SendMail returned %v), yet the backend read %q up to a clean end of file: a truncated message was presented as complete", c.At, len(c.Body), err, clipStr(d.A, 120)))
			return
		}
	}
	if ctx.WantSample("srcfail") {
		ctx.Sample("srcfail", map[string]any{"body": clipStr(string(c.Body), 60), "fails_after": c.At, "sendmail_error": fmt.Sprint(err), "data_calls": len(dataEnds(rig.Log.Events()))})
	}
}
