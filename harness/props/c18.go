package props

import (
	"encoding/json"
	"errors"
	"fmt"
	"strings"

	smtp "github.com/emersion/go-smtp"

	"verifharness/core"
	"verifharness/memconn"
	"verifharness/rec"
	"verifharness/wire"
)

// C18 — LMTP client reports each recipient's own status, transaction after transaction.

type c18Rcpt struct {
	Refuse  bool   `json:"refuse"`  // refused at RCPT time
	Verdict string `json:"verdict"` // ok | fail (status after DATA)
	Code    int    `json:"code"`    // RCPT acceptance code (250 or 251)
	Dup     bool   `json:"dup"`     // the same address as the previous recipient of the transaction (it is accepted again and gets a status of its own)
}

type c18Case struct {
	Txns     [][]c18Rcpt `json:"txns"`
	Callback bool        `json:"callback"` // LMTPData with callback, else Data()
	NilCB    bool        `json:"nil_cb"`   // LMTPData(nil)
	Reset    bool        `json:"reset"`    // Client.Reset between transactions
	Mix      int         `json:"mix"`      // 1, 2: the API used rotates forwards / backwards from transaction to transaction (callback / nil callback / Data())
	Retry    int         `json:"retry"`    // index+1 of a transaction whose DATA command is refused once (451) by the scripted peer and then issued again: the recipients accepted before stay accepted
	RsetFail int         `json:"rset_fail"` // index+1 of a transaction in which, after its RCPTs, Client.Reset is answered 451 by the scripted peer: the transaction stays open and is then completed
	Abandon  int         `json:"abandon"`  // index+1 of a transaction that is abandoned after its RCPTs (DATA refused by the peer with 451); scripted peer
}

func init() {
	register(&Prop{ID: "C18", Run: c18Run, Replay: func(ctx *core.Ctx, raw json.RawMessage) error {
		return core.ReplayCase(ctx, raw, c18Exec)
	}})
}

func c18Run(ctx *core.Ctx) {
	ctx.Rule = "1..3 consecutive LMTP transactions per client connection x 1..3 recipients each, every recipient {refused at RCPT, accepted then ok, accepted then refused after DATA} (at least one accepted per transaction), exhaustive; x {LMTPData with callback, LMTPData(nil), Data()} x {no Reset between transactions, Client.Reset}; real LMTP client against the real LMTP server whose per-recipient backend sets a unique-token status for every recipient. A stalled Close (client waits for a reply while the server waits for a command) is detected from the transport state. Non-trivial: more than one transaction or a refused recipient; distinct by case."
	ctx.Exhaustive = true
	ctx.Assumptions = []string{"Close hanging is decided by memconn.ErrStalled (both ends waiting to read), not by a timeout"}
	core.RunCases(ctx, func(emit func(c18Case)) {
		kinds := []c18Rcpt{{Refuse: true}, {Verdict: "ok"}, {Verdict: "fail"}}
		var txns [][]c18Rcpt
		var rec func(cur []c18Rcpt)
		rec = func(cur []c18Rcpt) {
			if len(cur) > 0 {
				ok := false
				for _, r := range cur {
					if !r.Refuse {
						ok = true
					}
				}
				if ok {
					txns = append(txns, append([]c18Rcpt{}, cur...))
				}
			}
			if len(cur) == 3 {
				return
			}
			for _, k := range kinds {
				rec(append(cur, k))
			}
		}
		rec(nil)
		modes := []c18Case{{Callback: true}, {Callback: true, NilCB: true}, {}}
		emitAll := func(t [][]c18Rcpt) {
			for _, m := range modes {
				for _, reset := range []bool{false, true} {
					c := m
					c.Txns = t
					c.Reset = reset
					emit(c)
					if len(t) > 1 {
						c.Mix = 1
						emit(c)
						c.Mix = 2
						emit(c)
					}
				}
			}
		}
		for _, t1 := range txns {
			emitAll([][]c18Rcpt{t1})
		}
		for i, t1 := range txns {
			for j, t2 := range txns {
				if !ctx.Thorough() && (i*7+j)%2 != 0 {
					continue
				}
				emitAll([][]c18Rcpt{t1, t2})
			}
		}
		si, sj, sk := 3, 5, 7
		if ctx.Thorough() {
			si, sj, sk = 1, 2, 3
		}
		for i := 0; i < len(txns); i += si {
			for j := 1; j < len(txns); j += sj {
				for k := 2; k < len(txns); k += sk {
					emitAll([][]c18Rcpt{txns[i], txns[j], txns[k]})
				}
			}
		}
		// a transaction that never reaches Close (DATA refused), then a normal one
		for _, m := range modes {
			for _, reset := range []bool{false, true} {
				for _, t := range [][][]c18Rcpt{
					{{{Verdict: "ok"}}, {{Verdict: "ok"}}},
					{{{Verdict: "ok"}, {Verdict: "fail"}}, {{Verdict: "fail"}, {Verdict: "ok"}, {Verdict: "ok"}}},
					{{{Verdict: "ok"}}, {{Verdict: "ok"}}, {{Verdict: "fail"}}},
				} {
					c := m
					c.Txns, c.Reset, c.Abandon = t, reset, 1
					emit(c)
					if len(t) == 3 {
						c.Abandon = 2
						emit(c)
					}
				}
			}
		}
		// DATA refused once with a transient code, then issued again inside the same transaction
		for _, m := range modes {
			for _, t := range [][][]c18Rcpt{
				{{{Verdict: "ok"}}},
				{{{Verdict: "ok"}, {Verdict: "fail"}}},
				{{{Verdict: "fail"}, {Refuse: true}, {Verdict: "ok"}}, {{Verdict: "ok"}}},
				{{{Verdict: "ok"}}, {{Verdict: "fail"}, {Verdict: "ok"}}},
			} {
				for retry := 1; retry <= len(t); retry++ {
					c := m
					c.Txns, c.Retry = t, retry
					emit(c)
					c.Retry, c.RsetFail = 0, retry
					emit(c)
				}
			}
		}
		// the same address accepted twice in one transaction: two RCPTs, two statuses
		emitAll([][]c18Rcpt{{{Verdict: "ok"}, {Verdict: "ok", Dup: true}}})
		emitAll([][]c18Rcpt{{{Verdict: "fail"}, {Verdict: "fail", Dup: true}, {Verdict: "ok"}}, {{Verdict: "ok"}}})
		emitAll([][]c18Rcpt{{{Verdict: "ok"}, {Verdict: "ok", Dup: true}}, {{Verdict: "fail"}, {Verdict: "ok"}}})
		// recipients accepted with 251 (will forward)
		emitAll([][]c18Rcpt{{{Verdict: "ok", Code: 251}, {Verdict: "fail"}, {Verdict: "ok"}}})
		emitAll([][]c18Rcpt{{{Verdict: "fail"}, {Verdict: "ok", Code: 251}}, {{Verdict: "ok"}, {Verdict: "fail", Code: 251}}})
	}, c18Exec)
}

func c18Exec(ctx *core.Ctx, c c18Case) {
	nontrivial := len(c.Txns) > 1
	for _, t := range c.Txns {
		for _, r := range t {
			if r.Refuse || r.Verdict == "fail" {
				nontrivial = true
			}
		}
	}
	ctx.Eval(fmt.Sprintf("%v|%v|%v|%v|%d", c.Txns, c.Callback, c.NilCB, c.Reset, c.Abandon)+fmt.Sprint("|", c.Mix, "|", c.Retry, "|", c.RsetFail), nontrivial || c.Retry > 0 || c.RsetFail > 0)
	rig := newRig(modeLMTPRcpt, nil)
	// addresses encode transaction, index and verdict: t<t>r<i>-<ok|fail|rej>@x.test
	rig.BE.H.Rcpt = func(sess int, to string, o *smtp.RcptOptions) error {
		if strings.Contains(to, "-rej@") {
			return &smtp.SMTPError{Code: 550, EnhancedCode: smtp.EnhancedCode{5, 1, 1}, Message: "v#rcpt-refused " + to}
		}
		if strings.Contains(to, "-fwd") {
			return nil
		}
		return nil
	}
	var curRcpts []string
	rig.BE.H.Reset = func(int) {}
	rig.BE.H.Data = func(sess int, r *rec.Reader, st smtp.StatusCollector) error {
		r.ReadAll(64)
		for _, e := range rig.Log.Events() {
			_ = e
		}
		// the accepted recipients of the current transaction, from the log since the last Mail
		ev := rig.Log.Events()
		curRcpts = nil
		for i := len(ev) - 1; i >= 0; i-- {
			if ev[i].Kind == "Mail" && ev[i].Ph == "b" {
				for _, e := range ev[i:] {
					if e.Kind == "Rcpt" && e.Ph == "e" && e.Err == "" {
						curRcpts = append(curRcpts, e.A)
					}
				}
				break
			}
		}
		for _, rc := range curRcpts {
			if strings.Contains(rc, "-fail") {
				code := c18FailCode(rc)
				msg := "v#st " + rc
				if code == 450 || code == 554 {
					msg += "\nsecond line of the status of " + rc // a multi-line per-recipient reply
				}
				st.SetStatus(rc, &smtp.SMTPError{Code: code, EnhancedCode: smtp.EnhancedCode{code / 100, 2, 2}, Message: msg})
			} else {
				st.SetStatus(rc, nil)
			}
		}
		return nil
	}
	useFake := c.Abandon > 0 || c.Retry > 0 || c.RsetFail > 0
	for _, t := range c.Txns {
		for _, r := range t {
			if r.Code == 251 {
				useFake = true
			}
		}
	}
	var cl *smtp.Client
	var fake *wire.Fake
	p := rig.Dial()
	if useFake {
		// the real server never answers RCPT with 251: a scripted LMTP peer does
		fake = wire.NewFake(c18FakeLMTP)
		fake.Client.SetStallDetect(true)
		cl = smtp.NewClientLMTP(fake.Client)
	} else {
		cl = smtp.NewClientLMTP(p.Raw)
	}
	fail := func(sig, msg string) {
		lg := rig.Log.Strings(100)
		if fake != nil {
			lg = fake.Log.Strings(100)
		}
		ctx.Violate(sig, msg+fmt.Sprintf(" [txns=%v callback=%v nilcb=%v mix=%v reset=%v fake=%v]", c.Txns, c.Callback, c.NilCB, c.Mix, c.Reset, useFake), c, lg)
	}
	done := func() {
		cl.Close()
		p.Close()
		rig.Finish()
		if fake != nil {
			fake.Close()
			fake.Wait()
		}
	}
	type cbk struct {
		rcpt string
		err  *smtp.SMTPError
	}
	curTxn := -1
	var staleCalls []string
	for ti, t := range c.Txns {
		if ti > 0 && c.Reset {
			if err := cl.Reset(); err != nil {
				done()
				fail("C18:reset", fmt.Sprintf("Reset failed: %v", err))
				return
			}
		}
		sender := fmt.Sprintf("s%d@x.test", ti)
		if c.Abandon == ti+1 {
			sender = fmt.Sprintf("nodata%d@x.test", ti)
		}
		if c.Retry == ti+1 {
			sender = fmt.Sprintf("dataonce%d@x.test", ti)
		}
		if c.RsetFail == ti+1 {
			sender = fmt.Sprintf("rsetfail%d@x.test", ti)
		}
		if err := cl.Mail(sender, nil); err != nil {
			done()
			if errors.Is(err, memconn.ErrStalled) {
				fail("C18:desync", fmt.Sprintf("transaction %d: Mail stalled: the client is out of step with the server", ti))
			} else {
				fail("C18:mail", fmt.Sprintf("transaction %d: Mail failed: %v", ti, err))
			}
			return
		}
		var accepted []string
		var wantCB []cbk
		anyFail := false
		// the API of this transaction
		cb, nilcb := c.Callback, c.NilCB
		if c.Mix > 0 {
			base := 0
			if c.Callback && c.NilCB {
				base = 1
			} else if !c.Callback {
				base = 2
			}
			step := ti
			if c.Mix == 2 {
				step = 2 * ti // backwards: callback, Data(), nil callback
			}
			switch (base + step) % 3 {
			case 0:
				cb, nilcb = true, false
			case 1:
				cb, nilcb = true, true
			default:
				cb, nilcb = false, false
			}
		}
		curTxn = ti
		prevAddr := ""
		for ri, r := range t {
			tag := "ok"
			switch {
			case r.Refuse:
				tag = "rej"
			case r.Verdict == "fail":
				tag = "fail"
			}
			if r.Code == 251 {
				tag += "fwd"
			}
			addr := fmt.Sprintf("t%dr%d-%s@x.test", ti, ri, tag)
			if r.Dup && prevAddr != "" {
				addr = prevAddr
			}
			prevAddr = addr
			err := cl.Rcpt(addr, nil)
			if r.Refuse {
				if err == nil {
					done()
					fail("C18:rcpt", "a refused recipient was reported as accepted")
					return
				}
				continue
			}
			if err != nil {
				done()
				fail("C18:rcpt", fmt.Sprintf("Rcpt failed: %v", err))
				return
			}
			accepted = append(accepted, addr)
			if r.Verdict == "fail" {
				anyFail = true
				wantCB = append(wantCB, cbk{addr, &smtp.SMTPError{Code: 552}})
			} else {
				wantCB = append(wantCB, cbk{addr, nil})
			}
		}
		var got []cbk
		var w interface {
			Write([]byte) (int, error)
			Close() error
		}
		var err error
		if c.Abandon == ti+1 {
			// the peer refuses DATA for this transaction (its sender is marked): no writer, no Close
			if _, derr := cl.Data(); derr == nil {
				done()
				fail("C18:abandon-setup", "the scripted peer was expected to refuse DATA")
				return
			}
			continue
		}
		if c.RsetFail == ti+1 {
			// the peer refuses RSET (451): the transaction, with its accepted recipients, is still open
			if rerr := cl.Reset(); rerr == nil {
				done()
				fail("C18:rsetfail-setup", "the scripted peer was expected to refuse RSET")
				return
			}
		}
		if c.Retry == ti+1 {
			// the peer answers the first DATA of this transaction with 451; the transaction stays open
			var derr error
			switch {
			case cb && nilcb:
				_, derr = cl.LMTPData(nil)
			case cb:
				_, derr = cl.LMTPData(func(rcpt string, st *smtp.SMTPError) {
					staleCalls = append(staleCalls, fmt.Sprintf("callback of the refused DATA of transaction %d called with (%s, %v)", ti, rcpt, st))
				})
			default:
				_, derr = cl.Data()
			}
			if derr == nil {
				done()
				fail("C18:retry-setup", "the scripted peer was expected to refuse the first DATA")
				return
			}
		}
		switch {
		case cb && nilcb:
			w, err = cl.LMTPData(nil)
		case cb:
			mine := ti
			w, err = cl.LMTPData(func(rcpt string, st *smtp.SMTPError) {
				if curTxn != mine {
					staleCalls = append(staleCalls, fmt.Sprintf("callback of transaction %d called with (%s, %v) during transaction %d", mine, rcpt, st, curTxn))
					return
				}
				got = append(got, cbk{rcpt, st})
			})
		default:
			w, err = cl.Data()
		}
		if err != nil {
			done()
			fail("C18:data", fmt.Sprintf("transaction %d: DATA failed: %v", ti, err))
			return
		}
		w.Write([]byte(fmt.Sprintf("message %d\r\n", ti)))
		cerr := w.Close()
		if errors.Is(cerr, memconn.ErrStalled) {
			done()
			fail("C18:close-waits-for-replies-that-never-come", fmt.Sprintf("transaction %d: Close waits for a reply while the server waits for the next command (%d recipients accepted in this transaction)", ti, len(accepted)))
			return
		}
		if errors.Is(cerr, memconn.ErrWatchdog) {
			done()
			ctx.Inconclusive("C18 watchdog in Close")
			return
		}
		ctx.Add("status_callbacks_compared", int64(len(got)))
		if len(staleCalls) > 0 {
			done()
			fail("C18:stale-callback", fmt.Sprintf("transaction %d: %s", ti, strings.Join(staleCalls, "; ")))
			return
		}
		if cb && !nilcb {
			if cerr != nil {
				done()
				fail("C18:close-error", fmt.Sprintf("transaction %d: Close returned %v", ti, cerr))
				return
			}
			okSeq := len(got) == len(wantCB)
			if okSeq {
				for i := range got {
					if got[i].rcpt != wantCB[i].rcpt || (got[i].err == nil) != (wantCB[i].err == nil) {
						okSeq = false
					} else if got[i].err != nil && (got[i].err.Code != c18FailCode(wantCB[i].rcpt) || !strings.Contains(got[i].err.Message, "v#st "+wantCB[i].rcpt)) {
						okSeq = false
					}
				}
			}
			if !okSeq {
				var gs []string
				for _, g := range got {
					gs = append(gs, fmt.Sprintf("(%s,%v)", g.rcpt, g.err))
				}
				done()
				sig := "C18:callbacks-differ"
				if ti > 0 {
					sig = "C18:callbacks-differ:later-transaction"
				}
				fail(sig, fmt.Sprintf("transaction %d: callbacks %v, accepted recipients with verdicts %v", ti, gs, t))
				return
			}
		} else {
			// no callback: a refusal after DATA must surface through Close
			if anyFail && cerr == nil {
				done()
				fail("C18:refusal-lost-without-callback", fmt.Sprintf("transaction %d: a recipient was refused after DATA but Close returned nil", ti))
				return
			}
			if !anyFail && cerr != nil {
				done()
				fail("C18:close-error", fmt.Sprintf("transaction %d: every recipient was accepted but Close returned %v", ti, cerr))
				return
			}
		}
	}
	// the connection must be in step: NOOP answers 250
	if err := cl.Noop(); err != nil {
		done()
		fail("C18:desync", fmt.Sprintf("Noop after the transactions failed: %v (unread or missing replies)", err))
		return
	}
	qerr := cl.Quit()
	done()
	if qerr != nil {
		fail("C18:desync", fmt.Sprintf("Quit failed: %v", qerr))
		return
	}
	cls := fmt.Sprintf("txns=%d/cb=%v", len(c.Txns), c.Callback && !c.NilCB)
	if ctx.WantSample(cls) {
		ctx.Sample(cls, map[string]any{"txns": fmt.Sprint(c.Txns), "callback": c.Callback, "nil_callback": c.NilCB, "reset_between": c.Reset})
	}
}

// c18FakeLMTP is a scripted LMTP peer that answers RCPT with 251 for "...fwd@" addresses and
// derives every verdict from the address tag.
func c18FakeLMTP(f *wire.Fake) {
	f.Write("220 fake LMTP\r\n")
	var accepted []string
	inData := false
	refuseData, refuseOnce, refuseRset := false, false, false
	for {
		l, ok := f.ReadLine()
		if !ok {
			return
		}
		if inData {
			if l == "." {
				inData = false
				for _, rc := range accepted {
					if strings.Contains(rc, "-fail") {
						code := c18FailCode(rc)
						if code == 450 || code == 554 {
							f.Write(fmt.Sprintf("%d-%d.2.2 <%s> v#st %s\r\n%d %d.2.2 second line of the status of %s\r\n", code, code/100, rc, rc, code, code/100, rc))
						} else {
							f.Write(fmt.Sprintf("%d %d.2.2 <%s> v#st %s\r\n", code, code/100, rc, rc))
						}
					} else {
						f.Write("250 2.0.0 <" + rc + "> ok\r\n")
					}
				}
				accepted = nil
			}
			continue
		}
		up := strings.ToUpper(l)
		switch {
		case strings.HasPrefix(up, "LHLO"):
			f.Write("250-fake\r\n250 PIPELINING\r\n")
		case strings.HasPrefix(up, "MAIL"):
			accepted = nil
			refuseData = strings.Contains(l, "<nodata") || strings.Contains(l, "<dataonce")
			refuseOnce = strings.Contains(l, "<dataonce")
			refuseRset = strings.Contains(l, "<rsetfail")
			f.Write("250 2.0.0 ok\r\n")
		case strings.HasPrefix(up, "RCPT"):
			a := l[strings.Index(l, "<")+1 : strings.Index(l, ">")]
			switch {
			case strings.Contains(a, "-rej"):
				f.Write("550 5.1.1 v#rcpt-refused\r\n")
			case strings.Contains(a, "fwd@"):
				accepted = append(accepted, a)
				f.Write("251 2.1.5 will forward\r\n")
			default:
				accepted = append(accepted, a)
				f.Write("250 2.1.5 ok\r\n")
			}
		case up == "DATA" && refuseData:
			f.Write("451 4.3.0 v#no-data-now\r\n")
			if refuseOnce {
				refuseData = false
			}
		case up == "DATA":
			if len(accepted) == 0 {
				f.Write("503 5.5.1 no recipients\r\n")
			} else {
				f.Write("354 go\r\n")
				inData = true
			}
		case up == "RSET" && refuseRset:
			refuseRset = false
			f.Write("451 4.3.0 v#no-reset-now\r\n")
		case up == "RSET":
			accepted = nil
			f.Write("250 2.0.0 ok\r\n")
		case up == "NOOP":
			f.Write("250 2.0.0 ok\r\n")
		case up == "QUIT":
			f.Write("221 2.0.0 bye\r\n")
			return
		default:
			f.Write("500 5.5.1 what\r\n")
		}
	}
}

// c18FailCode is the reply code of the post-DATA refusal of a recipient: it varies with the
// address (permanent and transient codes, 421 among them) so that no code is special.
func c18FailCode(addr string) int {
	n := 0
	for _, ch := range addr {
		n += int(ch)
	}
	return []int{552, 421, 450, 554}[n%4]
}
