package props

import (
	"bytes"
	"encoding/json"
	"fmt"
	"strings"

	smtp "github.com/emersion/go-smtp"

	"verifharness/core"
	"verifharness/rec"
	"verifharness/wire"
)

// C06 — MaxMessageBytes bounds what a backend is handed and what is accepted.

type c06Case struct {
	N         int64   `json:"n"`      // MaxMessageBytes
	Size      int     `json:"size"`   // message size (unstuffed octets)
	Chunks    []int   `json:"chunks"` // nil = DATA, else BDAT chunk sizes (sum == Size), LAST on the final one
	Stuffed   bool    `json:"stuffed"`
	ReadSize  int     `json:"read_size"`
	Decl      int64   `json:"decl"` // declared SIZE= (-1 = absent)
	Mode      srvMode `json:"mode"`
	HugeFirst string  `json:"huge_first"` // a BDAT command with this (unrepresentable) size and no payload precedes the chunks
	Second    int     `json:"second"`     // size of a second message sent on the same connection with the same kind of transfer (0 = none)
	Variant   string  `json:"variant"`    // message content: "" letters | xdot | dotlines
	Verdict   int     `json:"verdict"`    // 0 = the backend accepts; else it reads the whole message and then refuses it with this code and a token of its own
}

func init() {
	register(&Prop{ID: "C06", Run: c06Run, Replay: func(ctx *core.Ctx, raw json.RawMessage) error {
		return core.ReplayCase(ctx, raw, c06Exec)
	}})
}

func c06Run(ctx *core.Ctx) {
	ns := []int64{1, 2, 3, 4, 5, 6, 7, 8, 9, 10, 11, 12, 13, 14, 15, 16, 17, 18, 19, 20, 21, 22, 23, 24, 50, 64, 4096}
	spread := 2
	if ctx.Thorough() {
		ns = nil
		for i := int64(1); i <= 160; i++ {
			ns = append(ns, i)
		}
		ns = append(ns, 255, 256, 257, 1000, 4095, 4096, 4097, 5000, 8192)
		spread = 12
	}
	ctx.Rule = fmt.Sprintf("limits N in %v x message sizes N-%d..N+%d and 3N x transfer {DATA (plain and dot-stuffed first line), every composition into <=3 BDAT chunks for small sizes, seeded chunkings otherwise} x backend read sizes {1,2,3,N,N+1,4096} x declared SIZE {absent, N-1, N, N+1, 2N, 2^32-1} x {SMTP, LMTP, LMTP per-recipient}; every case is also executed with the limit off and the outcomes compared when the message fits. Non-trivial: size within 2 of N or above; distinct by full case.", ns, spread, spread)
	ctx.Assumptions = []string{"SIZE values beyond 32 bits are not generated here (C11/C14)", "a DATA message of size 1 does not exist (a non-empty DATA message ends in CRLF)"}
	core.RunCases(ctx, func(emit func(c06Case)) {
		idx := 0
		modes := []srvMode{modeSMTP, modeLMTP, modeLMTPRcpt}
		for _, N := range ns {
			sizes := map[int]bool{}
			for d := -spread; d <= spread; d++ {
				if int(N)+d >= 0 {
					sizes[int(N)+d] = true
				}
			}
			sizes[3*int(N)] = true
			sizes[0] = true
			for size := range sizes {
				reads := []int{1, 2, 3, int(N), int(N) + 1, 4096}
				decls := []int64{-1, N - 1, N, N + 1, 2 * N, 1<<32 - 1}
				// DATA
				for _, stuffed := range []bool{false, true} {
					if size == 1 || (stuffed && size < 3) {
						continue
					}
					for ri, rs := range reads {
						idx++
						decl := int64(-1)
						if ri == 0 {
							decl = decls[idx%len(decls)]
						}
						emit(c06Case{N: N, Size: size, Stuffed: stuffed, ReadSize: rs, Decl: decl, Mode: modes[idx%3]})
						if !stuffed && size >= 4 {
							emit(c06Case{N: N, Size: size, ReadSize: rs, Decl: -1, Mode: modes[idx%3], Variant: "xdot"})
							emit(c06Case{N: N, Size: size, ReadSize: rs, Decl: -1, Mode: modes[(idx+1)%3], Variant: "dotlines"})
						}
					}
				}
				// BDAT
				emitChunks := func(parts []int) {
					idx++
					emit(c06Case{N: N, Size: size, Chunks: parts, ReadSize: reads[idx%len(reads)], Decl: -1, Mode: modes[idx%3]})
				}
				if size <= 14 {
					core.Compositions(size, 3, emitChunks)
				} else {
					for k := 0; k < 6; k++ {
						r := core.NewRand(ctx.Seed, 61, uint64(N), uint64(size), uint64(k))
						a := r.Intn(size + 1)
						b := r.Intn(size - a + 1)
						emitChunks([]int{a, b, size - a - b})
					}
					emitChunks([]int{size})
					if size >= int(N) {
						emitChunks([]int{int(N), size - int(N)})
					}
				}
			}
			// an unrepresentable chunk size first (must not corrupt the byte accounting), then an oversized message
			for _, hs := range []string{"9223372036854775808", "18446744073709551516", "18446744073709551615", "18446744073709551616"} {
				for _, over := range []int{int(N) + 1, int(N) + 50} {
					idx++
					emit(c06Case{N: N, Size: over, Chunks: []int{over, 0}, HugeFirst: hs, ReadSize: 4096, Decl: -1, Mode: modes[idx%3]})
					emit(c06Case{N: N, Size: over, Chunks: []int{over / 2, over - over/2}, HugeFirst: hs, ReadSize: 3, Decl: -1, Mode: modes[(idx+1)%3]})
				}
			}
			// two messages on one connection, each within the limit, together above it
			for _, s1 := range []int{int(N), int(N) - 1, int(N)/2 + 1} {
				for _, s2 := range []int{int(N), int(N) - 1, int(N)/2 + 1, 2} {
					if s1 < 2 || s2 < 2 {
						continue
					}
					idx++
					emit(c06Case{N: N, Size: s1, Second: s2, ReadSize: 4096, Decl: -1, Mode: modes[idx%3]})
					emit(c06Case{N: N, Size: s1, Second: s2, Chunks: []int{s1 / 2, s1 - s1/2}, ReadSize: 3, Decl: -1, Mode: modes[(idx+1)%3]})
					emit(c06Case{N: N, Size: s1, Second: s2, Chunks: []int{s1}, ReadSize: 4096, Decl: -1, Mode: modes[(idx+2)%3]})
				}
			}
			// the backend reads a fitting message to its end and refuses it for reasons of its own: the
			// refusal is the backend's (code and all), also when the size budget is exactly used up
			for _, size := range []int{int(N) - 1, int(N), int(N) + 1} {
				if size < 2 {
					continue
				}
				for vi, verdict := range []int{451, 554} {
					idx++
					emit(c06Case{N: N, Size: size, ReadSize: []int{4096, 1, 3}[idx%3], Decl: -1, Mode: modes[(idx+vi)%3], Verdict: verdict})
					emit(c06Case{N: N, Size: size, Chunks: []int{size}, ReadSize: 4096, Decl: -1, Mode: modes[(idx+vi+1)%3], Verdict: verdict})
					emit(c06Case{N: N, Size: size, Chunks: []int{size / 2, size - size/2, 0}, ReadSize: 3, Decl: -1, Mode: modes[(idx+vi+2)%3], Verdict: verdict})
				}
			}
			// declared SIZE on its own (message fits)
			for _, decl := range []int64{N - 1, N, N + 1, 2 * N, 1<<32 - 1, 0} {
				if decl < 0 {
					continue
				}
				for _, mode := range modes {
					emit(c06Case{N: N, Size: 0, Decl: decl, ReadSize: 4096, Mode: mode})
					// declared small, actual message longer than N
					emit(c06Case{N: N, Size: int(N) + 3, Decl: decl, ReadSize: 3, Mode: mode})
				}
			}
		}
	}, c06Exec)
	// declared chunk sizes near 2^63 after an accepted chunk: the limit arithmetic must not wrap
	// (shares the executor of C05's unsatisfiable-size cases; signatures carry this property's id)
	core.RunCases(ctx, func(emit func(c05Case)) {
		idx := 0
		for _, hs := range []string{"9223372036854775807", "9223372036854775800", "9223372036854775777", "4611686018427387904", "4294967296", "41"} {
			for _, after := range []int{1, 5, 30, 40} {
				for _, mode := range []srvMode{modeSMTP, modeLMTP, modeLMTPRcpt} {
					for _, last := range []bool{false, true} {
						idx++
						emit(c05Case{Msg: []byte(strings.Repeat("payload-beyond-the-limit ", 8)), MsgQ: "200 octets", Chunks: []int{0}, Seg: []string{"glued", "split"}[idx%2], Mode: mode, Huge: hs, HugeAfter: after, LineLimit: 64, ExtraLast: last})
					}
				}
			}
		}
	}, c05Exec)
}

type c06Outcome struct {
	mailCode   int
	finals2    []int // the same for the second message
	read2      string
	finals     []int // reply codes of the final reply/replies for the message (DATA) or per BDAT command
	read       string
	term       string
	dataCalls  int
	mailCalled bool
	mailSize   int64
	after      int // reply code of the DATA sent after the transfer
	resetAfter bool
	err        error
	log        []string
	inconcl    bool
}

func c06Message(c c06Case) []byte {
	if c.Size == 0 {
		return nil
	}
	b := make([]byte, c.Size)
	for i := range b {
		b[i] = 'a' + byte(i%26)
	}
	switch c.Variant {
	case "xdot":
		// ".CRLF" in the middle of a line at every fourth offset: an end-marker look-alike
		// wherever the size budget happens to run out
		for i := range b {
			b[i] = "x.\r\n"[i%4]
		}
		if c.Chunks == nil && c.Size >= 2 {
			b[c.Size-2], b[c.Size-1] = '\r', '\n'
			if c.Size >= 3 && b[c.Size-3] == '\n' {
				b[c.Size-3] = 'y' // no empty-looking "." line before the end
			}
		}
		return b
	case "dotlines":
		// every line starts with a dot (dot-stuffed on the wire): stuffed and unstuffed sizes differ
		for i := range b {
			b[i] = ".a\r\n"[i%4]
		}
		if c.Chunks == nil && c.Size >= 2 {
			b[c.Size-2], b[c.Size-1] = '\r', '\n'
			if c.Size >= 3 && b[c.Size-3] == '\n' {
				b[c.Size-3] = 'y'
			}
			if c.Size >= 4 && b[c.Size-3] == '.' && b[c.Size-4] == '\n' {
				b[c.Size-3] = 'z'
			}
		}
		return b
	}
	// keep lines short: the line-length limit is not this property's subject
	for i := 60; i+1 < c.Size; i += 62 {
		b[i], b[i+1] = '\r', '\n'
	}
	if c.Chunks == nil {
		b[c.Size-2], b[c.Size-1] = '\r', '\n'
		if c.Stuffed {
			b[0] = '.'
		}
	}
	return b
}

func c06One(c c06Case, limit int64) c06Outcome {
	var o c06Outcome
	rig := newRig(c.Mode, func(s *smtp.Server) { s.MaxMessageBytes = limit })
	serverKnobs(rig, fmt.Sprintf("%+v", c))
	rig.BE.H.Data = func(sess int, r *rec.Reader, st smtp.StatusCollector) error {
		rs := c.ReadSize
		if rs < 1 {
			rs = 1
		}
		return r.ReadAll(rs) // returns the terminal error: a failed read fails the delivery
	}
	// io.EOF from ReadAll means success
	inner := rig.BE.H.Data
	rig.BE.H.Data = func(sess int, r *rec.Reader, st smtp.StatusCollector) error {
		err := inner(sess, r, st)
		if err != nil && err.Error() == "EOF" {
			if c.Verdict != 0 {
				return &smtp.SMTPError{Code: c.Verdict, EnhancedCode: smtp.EnhancedCode{c.Verdict / 100, 3, 0}, Message: "v#m06 the backend's own verdict"}
			}
			return nil
		}
		return err
	}
	p := rig.Dial()
	mail := "MAIL FROM:<s@x.test>"
	if c.Decl >= 0 {
		mail += fmt.Sprintf(" SIZE=%d", c.Decl)
	}
	p.SendStr(c.Mode.hello() + "\r\n" + mail + "\r\n")
	head, err := expect(p, 3)
	done := func() c06Outcome {
		p.Close()
		if !rig.Finish() {
			o.inconcl = true
		}
		ev := rig.Log.Events()
		for _, e := range ev {
			if e.Kind == "Mail" && e.Ph == "b" {
				o.mailCalled = true
				if e.MailOpts != nil {
					o.mailSize = e.MailOpts.Size
				}
			}
		}
		total := 0
		sawXfer := false
		for _, e := range ev {
			if e.Kind == "act" && e.A == "transfer starts" {
				sawXfer = true
			}
			if e.Kind == "Reset" && sawXfer {
				o.resetAfter = true
			}
		}
		for di, d := range dataEnds(ev) {
			if c.Second > 0 && di >= 1 {
				o.read2 += d.A
				continue
			}
			o.dataCalls++
			total += len(d.A)
			o.read += d.A
			o.term = d.B
		}
		o.log = rig.Log.Strings(80)
		return o
	}
	if err != nil {
		o.err = err
		return done()
	}
	o.mailCode = head[2].Code
	if o.mailCode != 250 {
		return done()
	}
	nr := 1
	p.SendStr("RCPT TO:<r1@x.test>\r\n")
	if c.Mode.lmtp() {
		p.SendStr("RCPT TO:<r2@x.test>\r\n")
		nr = 2
	}
	if _, err := expect(p, nr); err != nil {
		o.err = err
		return done()
	}
	msg := c06Message(c)
	rig.Log.Act("transfer starts")
	if c.Chunks == nil {
		r, err := p.Cmd("DATA")
		if err != nil || r.Code != 354 {
			o.err = fmt.Errorf("DATA not accepted: %v %v", r, err)
			return done()
		}
		var stream []byte
		for _, line := range bytes.SplitAfter(msg, []byte("\r\n")) {
			if len(line) > 0 && line[0] == '.' {
				stream = append(stream, '.')
			}
			stream = append(stream, line...)
		}
		stream = append(stream, ".\r\n"...)
		p.Send(stream)
		rs, err := expect(p, nr)
		for _, r := range rs {
			o.finals = append(o.finals, r.Code)
		}
		if err != nil {
			o.err = err
			return done()
		}
	} else {
		if c.HugeFirst != "" {
			p.SendStr("BDAT " + c.HugeFirst + "\r\n")
			p.ReadUntilStall() // whatever the answer is, it is not part of the message's replies
		}
		off := 0
		for i, n := range c.Chunks {
			cmd := fmt.Sprintf("BDAT %d", n)
			last := i == len(c.Chunks)-1
			if last {
				cmd += " LAST"
			}
			p.Send(append([]byte(cmd+"\r\n"), msg[off:off+n]...))
			off += n
			rs, err := p.ReadUntilStall()
			for _, r := range rs {
				o.finals = append(o.finals, r.Code)
			}
			if err != nil || len(rs) == 0 {
				o.err = fmt.Errorf("no reply to %q: %v", cmd, err)
				return done()
			}
		}
	}
	r, err := p.Cmd("DATA")
	if err != nil {
		o.err = err
		return done()
	}
	o.after = r.Code
	if c.Second > 0 {
		c2 := c
		c2.Size, c2.Variant, c2.Stuffed = c.Second, "", false
		msg2 := c06Message(c2)
		p.SendStr("MAIL FROM:<s2@x.test>\r\nRCPT TO:<r1@x.test>\r\n")
		if c.Mode.lmtp() {
			p.SendStr("RCPT TO:<r2@x.test>\r\n")
		}
		if _, err := expect(p, 1+nr); err != nil {
			o.err = err
			return done()
		}
		if c.Chunks == nil {
			rr, err := p.Cmd("DATA")
			if err != nil || rr.Code != 354 {
				o.err = fmt.Errorf("second DATA not accepted: %v %v", rr, err)
				return done()
			}
			p.Send(append(append([]byte{}, msg2...), ".\r\n"...))
		} else {
			p.Send(append([]byte(fmt.Sprintf("BDAT %d LAST\r\n", len(msg2))), msg2...))
		}
		rs, err := p.ReadUntilStall()
		for _, r := range rs {
			o.finals2 = append(o.finals2, r.Code)
		}
		if err != nil {
			o.err = err
			return done()
		}
	}
	p.Cmd("QUIT")
	return done()
}

func c06Exec(ctx *core.Ctx, c c06Case) {
	near := int64(c.Size) >= c.N-2
	ctx.Eval(fmt.Sprintf("%d|%d|%v|%v|%d|%d|%s|%s|%d", c.N, c.Size, c.Chunks, c.Stuffed, c.ReadSize, c.Decl, c.Mode, c.Variant, c.Second)+c.HugeFirst+fmt.Sprint("|", c.Verdict), near || c.Decl >= 0)
	o := c06One(c, c.N)
	if o.inconcl || isWatchdog(o.err) {
		ctx.Inconclusive("C06 watchdog")
		return
	}
	ctx.Add("octets_compared", int64(len(o.read)))
	ctx.Add("replies_parsed", int64(len(o.finals)+4))
	fail := func(sig, msg string) {
		ctx.Violate(sig, msg+fmt.Sprintf(" [N=%d size=%d chunks=%v stuffed=%v read=%d decl=%d mode=%s variant=%s]", c.N, c.Size, c.Chunks, c.Stuffed, c.ReadSize, c.Decl, c.Mode, c.Variant), c, o.log)
	}
	// declared SIZE
	if c.Decl > c.N {
		if o.mailCode != 552 {
			fail("C06:declared-size-not-552", fmt.Sprintf("MAIL SIZE=%d with limit %d answered %d, expected 552", c.Decl, c.N, o.mailCode))
		} else if o.mailCalled {
			fail("C06:declared-size-reached-backend", "MAIL with an over-limit SIZE reached the backend")
		}
		return
	}
	if o.mailCode != 250 {
		fail("C06:mail-refused", fmt.Sprintf("MAIL (declared SIZE %d <= limit) answered %d", c.Decl, o.mailCode))
		return
	}
	if c.Decl >= 0 && o.mailSize != c.Decl {
		fail("C06:declared-size-value", fmt.Sprintf("backend saw Size=%d, declared %d", o.mailSize, c.Decl))
		return
	}
	if o.err != nil {
		fail("C06:conversation", fmt.Sprintf("conversation broke: %v (finals %v)", o.err, o.finals))
		return
	}
	if int64(len(o.read)) > c.N {
		fail("C06:backend-read-over-limit", fmt.Sprintf("backend read %d octets with limit %d", len(o.read), c.N))
		return
	}
	msg := c06Message(c)
	if o.after/100 != 5 {
		fail("C06:transaction-not-discarded", fmt.Sprintf("DATA after the finished transfer answered %d, expected 5xx", o.after))
		return
	}
	if int64(c.Size) > c.N {
		if o.term == "EOF" {
			fail("C06:oversize-complete", fmt.Sprintf("reader reported EOF for a %d-octet message with limit %d", c.Size, c.N))
			return
		}
		saw552 := false
		for _, f := range o.finals {
			if f/100 == 2 && (c.Chunks == nil) {
				fail("C06:oversize-accepted", fmt.Sprintf("over-limit message got final replies %v", o.finals))
				return
			}
			if f == 552 {
				saw552 = true
			}
		}
		if c.Chunks != nil {
			// the LAST chunk's reply must not be positive
			if o.finals[len(o.finals)-1]/100 == 2 {
				fail("C06:oversize-accepted", fmt.Sprintf("over-limit chunked message: replies %v", o.finals))
				return
			}
		}
		if !saw552 {
			fail("C06:oversize-not-552", fmt.Sprintf("over-limit message was not answered 552: %v", o.finals))
			return
		}
		if o.dataCalls > 0 && !o.resetAfter {
			fail("C06:no-reset", "no Reset after the refused message")
		}
		return
	}
	// message fits: must behave exactly as without a limit
	ref := c06One(c, 0)
	if ref.inconcl || isWatchdog(ref.err) {
		ctx.Inconclusive("C06 watchdog (reference run)")
		return
	}
	if fmt.Sprint(ref.finals) != fmt.Sprint(o.finals) || ref.read != o.read || ref.term != o.term || ref.after != o.after {
		sig := "C06:fits-but-differs"
		if int64(c.Size) == c.N && c.Chunks == nil {
			sig = "C06:data-exactly-N-differs"
		}
		fail(sig, fmt.Sprintf("message of %d octets (limit %d): replies %v read=%d term=%q; without limit: replies %v read=%d term=%q", c.Size, c.N, o.finals, len(o.read), o.term, ref.finals, len(ref.read), ref.term))
		return
	}
	if o.read != string(msg) || o.term != "EOF" {
		fail("C06:fits-not-delivered", fmt.Sprintf("message of %d octets (limit %d) not delivered intact: read %d octets, term %q", c.Size, c.N, len(o.read), o.term))
		return
	}
	nFinal := 1
	if c.Mode.lmtp() {
		nFinal = 2
	}
	for fi, f := range o.finals {
		if c.Verdict != 0 {
			if fi < len(o.finals)-nFinal {
				continue // the acknowledgement of a non-LAST chunk
			}
			if f != c.Verdict {
				fail("C06:fits-but-verdict-replaced", fmt.Sprintf("the backend read the whole message (%d octets, limit %d) and refused it with %d; the client was told %v", c.Size, c.N, c.Verdict, o.finals))
				return
			}
			continue
		}
		if f != 250 {
			fail("C06:fits-not-accepted", fmt.Sprintf("replies %v", o.finals))
			return
		}
	}
	if c.Second > 0 && int64(c.Second) <= c.N {
		okAll := len(o.finals2) > 0
		for _, f := range o.finals2 {
			if f != 250 {
				okAll = false
			}
		}
		if !okAll || len(o.read2) != c.Second {
			fail("C06:second-message-affected-by-first", fmt.Sprintf("a second message of %d octets (limit %d) on the same connection after a first one of %d octets: replies %v, backend read %d octets", c.Second, c.N, c.Size, o.finals2, len(o.read2)))
			return
		}
	}
	cls := fmt.Sprintf("%s/%v", c.Mode, c.Chunks == nil)
	if ctx.WantSample(cls) {
		ctx.Sample(cls, map[string]any{"N": c.N, "size": c.Size, "chunks": c.Chunks, "read_size": c.ReadSize, "decl": c.Decl, "finals": o.finals, "backend_read": len(o.read), "term": o.term})
	}
	_ = wire.Reply{}
}
