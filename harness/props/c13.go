package props

import (
	"encoding/json"
	"fmt"
	"strings"
	"time"

	smtp "github.com/emersion/go-smtp"

	"verifharness/core"
	"verifharness/detect"
	"verifharness/rec"
	"verifharness/wire"
)

// C13 — LMTP returns one status per accepted recipient, in order, correctly attributed.

type c13Call struct {
	Addr string `json:"addr"` // a | b | unknown
	Nil  bool   `json:"nil"`  // status nil (success) instead of a token error
}

type c13Case struct {
	Rcpts    []string  `json:"rcpts"` // sequence over {a, b}
	Calls    []c13Call `json:"calls"`
	Timing   string    `json:"timing"`   // before | after | interleaved
	RetErr   bool      `json:"ret_err"`  // LMTPData returns an error (token v#ret) instead of nil
	Panic    string    `json:"panic"`    // "" | first | aftercalls | toooften | unknown | late
	Transfer string    `json:"transfer"` // data | bdat1 | bdat3 | bdatfail
	Backend  string    `json:"backend"`  // lmtp | plain
	Reject   string    `json:"reject"`   // "" | first | middle: an extra recipient refused at RCPT time at that position; badbdat-first | badbdat-middle: a malformed (refused) BDAT command at that position
	Addrs    string    `json:"addrs"`    // "" | case (see addr)
	Second   []string  `json:"second"`   // recipient list of a second transaction on the same connection (every occurrence gets its own status)
}

func init() {
	register(&Prop{ID: "C13", Run: c13Run, Replay: func(ctx *core.Ctx, raw json.RawMessage) error {
		return core.ReplayCase(ctx, raw, c13Exec)
	}, Parts: func(tier string) []Part {
		if tier == "thorough" {
			return []Part{{Name: "main"}, {Name: "p1", GOMAXPROCS: 1}, {Name: "p4", GOMAXPROCS: 4}, {Name: "race", Race: true}}
		}
		return []Part{{Name: "main"}}
	}})
}

func c13Run(ctx *core.Ctx) {
	ctx.Rule = "all 30 recipient lists of length 1..4 over two addresses x all sequences of SetStatus calls within the multiplicities (every sub-multiset and order) x status timing {before reading the message, after, interleaved} x return {nil, error} x panic {none, before any status, after the calls, SetStatus too often, unknown address, late call from a goroutine after return} x transfer {DATA, BDAT single LAST, BDAT three chunks, BDAT LAST whose delivery fails before consuming the chunk} x backend {per-recipient, plain} x a recipient refused at RCPT time {none, first, in the middle}; every status carries a unique token; in every third case the two addresses differ only in the letter case of their domain; reference attribution = per-address FIFO. Non-trivial: at least two recipients or at least one status call; distinct by case."
	ctx.Exhaustive = true
	ctx.Assumptions = []string{"deadlock verdicts are state based: backend returned, client has nothing left to send, server neither parked reading nor writing for 300 consecutive polls, corroborated by a goroutine dump", "after a backend panic only the replies that were sent are judged"}
	core.RunCases(ctx, func(emit0 func(c13Case)) {
		nEmit := 0
		emit := func(c c13Case) {
			nEmit++
			if nEmit%3 == 0 {
				c.Addrs = "case"
			}
			emit0(c)
		}
		idx := 0
		var lists [][]string
		alphabet, maxList := []string{"a", "b"}, 4
		if ctx.Thorough() {
			alphabet, maxList = []string{"a", "b", "c"}, 5 // 363 lists over three addresses
		}
		core.Strings(alphabet, maxList, func(parts []string) {
			if len(parts) > 0 {
				lists = append(lists, append([]string{}, parts...))
			}
		})
		for _, rc := range lists {
			cnt := map[string]int{}
			for _, r := range rc {
				cnt[r]++
			}
			var seqs [][]string
			var rec func(cur []string, used map[string]int)
			rec = func(cur []string, used map[string]int) {
				seqs = append(seqs, append([]string{}, cur...))
				for _, a := range alphabet {
					if used[a] < cnt[a] {
						used[a]++
						rec(append(cur, a), used)
						used[a]--
					}
				}
			}
			rec(nil, map[string]int{})
			for _, sq := range seqs {
				for _, transfer := range []string{"data", "bdat1", "bdat3"} {
					for _, ret := range []bool{false, true} {
						idx++
						timing := []string{"before", "after", "interleaved"}[idx%3]
						var calls []c13Call
						for k, a := range sq {
							calls = append(calls, c13Call{Addr: a, Nil: (idx+k)%5 == 0})
						}
						emit(c13Case{Rcpts: rc, Calls: calls, Timing: timing, RetErr: ret, Transfer: transfer, Backend: "lmtp", Reject: []string{"", "badbdat-middle", "first", "middle", "badbdat-first", ""}[idx%6]})
						if true {
							for _, t2 := range []string{"before", "after", "interleaved"} {
								if t2 != timing {
									emit(c13Case{Rcpts: rc, Calls: calls, Timing: t2, RetErr: ret, Transfer: transfer, Backend: "lmtp"})
								}
							}
						}
					}
				}
				// the delivery gives up (returns an error) before it has consumed the LAST chunk, after
				// setting the statuses of the sequence: nothing read / three octets read / the first
				// two of three chunks read
				for _, transfer := range []string{"bdatfail", "bdatfailpart", "bdatfail3"} {
					idx++
					var calls []c13Call
					for k, a := range sq {
						calls = append(calls, c13Call{Addr: a, Nil: (idx+k)%5 == 0})
					}
					emit(c13Case{Rcpts: rc, Calls: calls, Timing: "before", RetErr: true, Transfer: transfer, Backend: "lmtp"})
					// ... or it returns nil at that point: the recipients it set no status for get its
					// return value, success, like everywhere else
					emit(c13Case{Rcpts: rc, Calls: calls, Timing: "before", RetErr: false, Transfer: transfer, Backend: "lmtp"})
				}
				// panics (per-recipient backend)
				for pi, pn := range []string{"first", "aftercalls", "toooften", "unknown", "late"} {
					idx++
					var calls []c13Call
					for _, a := range sq {
						calls = append(calls, c13Call{Addr: a})
					}
					emit(c13Case{Rcpts: rc, Calls: calls, Timing: "after", RetErr: idx%2 == 0, Panic: pn, Transfer: []string{"data", "bdat1", "bdat3"}[(idx+pi)%3], Backend: "lmtp"})
				}
			}
			// a second transaction on the same connection with a different recipient list
			for si, second := range [][]string{{"b", "a"}, {"a"}, {"b", "b", "a"}, {"a", "b", "a", "b"}} {
				for _, transfer := range []string{"data", "bdat1", "bdat3"} {
					var calls []c13Call
					for _, a := range rc {
						calls = append(calls, c13Call{Addr: a})
					}
					emit(c13Case{Rcpts: rc, Calls: calls, Timing: "after", RetErr: si%2 == 0, Transfer: transfer, Backend: "lmtp", Second: second})
				}
			}
			// plain backend and the early-failure path
			for _, transfer := range []string{"data", "bdat1", "bdat3"} {
				for _, ret := range []bool{false, true} {
					emit(c13Case{Rcpts: rc, RetErr: ret, Transfer: transfer, Backend: "plain", Timing: "after"})
				}
				emit(c13Case{Rcpts: rc, Panic: "first", Transfer: transfer, Backend: "plain", Timing: "after"})
			}
			// the delivery fails (returns an error) before consuming the LAST chunk
			for _, transfer := range []string{"bdatfail", "bdatfailpart", "bdatfail3"} {
				emit(c13Case{Rcpts: rc, RetErr: true, Transfer: transfer, Backend: "plain", Timing: "after"})
				emit(c13Case{Rcpts: rc, RetErr: true, Transfer: transfer, Backend: "lmtp", Timing: "after"})
			}
		}
	}, c13Exec)
}

// addr maps the abstract recipient names to addresses. With Addrs == "case" the first two differ
// only in the letter case of the domain: they are different RCPT arguments (the backend is
// handed, and uses, each exactly as it was sent) and must not share their statuses.
func (c c13Case) addr(a string) string {
	if c.Addrs == "case" {
		switch a {
		case "a":
			return "ann@x.test"
		case "b":
			return "ann@X.TEST"
		}
	}
	return a + "@x.test"
}

func c13Exec(ctx *core.Ctx, c c13Case) {
	ctx.Eval(fmt.Sprintf("%v|%v|%s|%v|%s|%s|%s|%s|%v|%s", c.Rcpts, c.Calls, c.Timing, c.RetErr, c.Panic, c.Transfer, c.Backend, c.Reject, c.Second, c.Addrs), len(c.Rcpts) >= 2 || len(c.Calls) > 0)
	mode := modeLMTPRcpt
	if c.Backend == "plain" {
		mode = modeLMTP
	}
	rig := newRig(mode, nil)
	tokenOf := func(k int) string { return fmt.Sprintf("v#st%d", k) }
	statusErr := func(k int, call c13Call) error {
		if call.Nil {
			return nil
		}
		code := []int{550, 451, 552, 450}[k%4]
		ec := smtp.EnhancedCode{code / 100, 1, k % 7}
		return &smtp.SMTPError{Code: code, EnhancedCode: ec, Message: tokenOf(k) + " per-recipient status 100% %s %d%%"}
	}
	retErr := error(nil)
	if c.RetErr {
		retErr = &smtp.SMTPError{Code: 554, EnhancedCode: smtp.EnhancedCode{5, 6, 0}, Message: "v#ret overall result 50% full %v"}
	}
	rig.BE.H.Rcpt = func(sess int, to string, o *smtp.RcptOptions) error {
		if strings.HasPrefix(to, "rej") {
			return &smtp.SMTPError{Code: 550, EnhancedCode: smtp.EnhancedCode{5, 1, 1}, Message: "v#rcpt refused"}
		}
		return nil
	}
	lateDone := make(chan struct{})
	lateUsed := false
	dataCalls := 0
	rig.BE.H.Data = func(sess int, r *rec.Reader, st smtp.StatusCollector) error {
		dataCalls++
		if dataCalls == 2 {
			r.ReadAll(64)
			for i, a := range c.Second {
				st.SetStatus(c.addr(a), &smtp.SMTPError{Code: 450 + i, EnhancedCode: smtp.EnhancedCode{4, 2, i}, Message: fmt.Sprintf("v#t2-%d second transaction", i)})
			}
			return nil
		}
		if strings.HasPrefix(c.Transfer, "bdatfail") {
			// gives up before the LAST chunk has been consumed
			switch c.Transfer {
			case "bdatfailpart":
				r.ReadN(3, 3)
			case "bdatfail3":
				r.ReadN(15, 4)
			}
			if st != nil {
				for k := range c.Calls {
					st.SetStatus(c.addr(c.Calls[k].Addr), statusErr(k, c.Calls[k]))
				}
			}
			return retErr
		}
		if c.Panic == "first" {
			panic("scripted backend panic before any status")
		}
		doCalls := func(from, to int) {
			for k := from; k < to && k < len(c.Calls); k++ {
				if st != nil {
					st.SetStatus(c.addr(c.Calls[k].Addr), statusErr(k, c.Calls[k]))
				}
			}
		}
		switch c.Timing {
		case "before":
			doCalls(0, len(c.Calls))
			r.ReadAll(64)
		case "interleaved":
			half := len(c.Calls) / 2
			r.ReadN(3, 3)
			doCalls(0, half)
			r.ReadAll(7)
			doCalls(half, len(c.Calls))
		default:
			r.ReadAll(64)
			doCalls(0, len(c.Calls))
		}
		switch c.Panic {
		case "aftercalls":
			panic("scripted backend panic after the status calls")
		case "toooften":
			if st != nil {
				for i := 0; i < 6; i++ {
					st.SetStatus(c.addr(c.Rcpts[0]), nil)
				}
			}
		case "unknown":
			if st != nil {
				st.SetStatus("nobody@x.test", nil)
			}
		case "late":
			if st != nil {
				lateUsed = true
				go func() {
					defer close(lateDone)
					defer func() { recover() }()
					for i := 0; i < 8; i++ {
						st.SetStatus(c.addr(c.Rcpts[0]), &smtp.SMTPError{Code: 550, EnhancedCode: smtp.EnhancedCode{5, 0, 0}, Message: "v#late must never be reported"})
					}
				}()
			}
		}
		return retErr
	}
	p := rig.Dial()
	p.Raw.SetWatchdog(2 * time.Second)
	// envelope (with an optional refused recipient)
	var rcptLines []string
	for i, rc := range c.Rcpts {
		if (c.Reject == "first" && i == 0) || (c.Reject == "middle" && i == len(c.Rcpts)/2 && i > 0) {
			rcptLines = append(rcptLines, "RCPT TO:<rej@x.test>")
		}
		if (c.Reject == "badbdat-first" && i == 1) || (c.Reject == "badbdat-middle" && i == len(c.Rcpts)/2 && i > 0) {
			// a BDAT refused for its syntax is not a chunk: the transaction simply goes on
			rcptLines = append(rcptLines, []string{"BDAT 0 FINAL", "BDAT 0 LAST now", "BDAT x1"}[(i+len(c.Calls))%3])
		}
		rcptLines = append(rcptLines, "RCPT TO:<"+c.addr(rc)+">")
	}
	p.SendStr("LHLO c.test\r\nMAIL FROM:<s@x.test>\r\n" + strings.Join(rcptLines, "\r\n") + "\r\n")
	head, err := expect(p, 3+len(rcptLines))
	var all []wire.Reply
	all = append(all, head...)
	finish := func() {
		p.Close()
		rig.Finish()
		waitDataEnds(rig.Log)
		if lateUsed {
			select {
			case <-lateDone:
			case <-time.After(wire.Watchdog):
			}
		}
	}
	fail := func(sig, msg string) {
		ctx.Violate(sig, msg+fmt.Sprintf(" [rcpts=%v calls=%v timing=%s retErr=%v panic=%q transfer=%s backend=%s reject=%q]", c.Rcpts, c.Calls, c.Timing, c.RetErr, c.Panic, c.Transfer, c.Backend, c.Reject), c, witness(rig.Log, all))
	}
	if err != nil {
		finish()
		if isWatchdog(err) {
			ctx.Inconclusive("C13 preamble watchdog")
			return
		}
		fail("C13:preamble", fmt.Sprintf("envelope failed: %v", err))
		return
	}
	msg := "Subject: t\r\n\r\nbody line\r\n"
	sendTransfer := func() bool {
		switch c.Transfer {
		case "data":
			p.SendStr("DATA\r\n")
			r, err := p.ReadReply()
			all = append(all, r)
			if err != nil || r.Code != 354 {
				return false
			}
			p.SendStr(msg + ".\r\n")
		case "bdat1", "bdatfail":
			p.SendStr(fmt.Sprintf("BDAT %d LAST\r\n", len(msg)))
			p.SendStr(msg)
		case "bdat3":
			p.SendStr("BDAT 5\r\n")
			p.SendStr(msg[:5])
			r, _ := p.ReadReply()
			all = append(all, r)
			p.SendStr(fmt.Sprintf("BDAT %d\r\n", len(msg)-5))
			p.SendStr(msg[5:])
			r, _ = p.ReadReply()
			all = append(all, r)
			p.SendStr("BDAT 0 LAST\r\n")
		}
		return true
	}
	switch c.Transfer {
	case "data":
		p.SendStr("DATA\r\n")
		r, err := p.ReadReply()
		all = append(all, r)
		if err != nil || r.Code != 354 {
			finish()
			fail("C13:data-refused", fmt.Sprintf("DATA answered %s %v", r, err))
			return
		}
		p.SendStr(msg + ".\r\n")
	case "bdat1", "bdatfail", "bdatfailpart":
		p.SendStr(fmt.Sprintf("BDAT %d LAST\r\n", len(msg)))
		p.SendStr(msg)
	case "bdat3":
		p.SendStr("BDAT 5\r\n")
		p.SendStr(msg[:5])
		r, _ := p.ReadReply()
		all = append(all, r)
		p.SendStr(fmt.Sprintf("BDAT %d\r\n", len(msg)-5))
		p.SendStr(msg[5:])
		r, _ = p.ReadReply()
		all = append(all, r)
		p.SendStr("BDAT 0 LAST\r\n")
	case "bdatfail3":
		p.SendStr("BDAT 5\r\n")
		p.SendStr(msg[:5])
		r, _ := p.ReadReply()
		all = append(all, r)
		p.SendStr("BDAT 10\r\n")
		p.SendStr(msg[5:15])
		r, _ = p.ReadReply()
		all = append(all, r)
		p.SendStr(fmt.Sprintf("BDAT %d LAST\r\n", len(msg)-15))
		p.SendStr(msg[15:])
	}
	// collect the final replies; a stall means "server waits for the next command"
	n := len(c.Rcpts)
	var finals []wire.Reply
	deadlock := ""
	for len(finals) < n {
		r, err := p.ReadReply()
		if err == nil {
			finals = append(finals, r)
			all = append(all, r)
			continue
		}
		if isWatchdog(err) {
			deadlock = c13Deadlock(rig, p)
			if deadlock == "" {
				continue // still progressing
			}
		}
		break
	}
	closedByServer := false
	if len(finals) == n || deadlock == "" {
		// probe that the connection is in command mode (unless a panic closed it)
		p.SendStr("NOOP\r\n")
		for {
			r, err := p.ReadReply()
			if err != nil {
				if isWatchdog(err) && len(finals) == n {
					// every final reply was sent, yet the command loop does not come back
					deadlock = c13Deadlock(rig, p)
					if deadlock == "" {
						continue
					}
					break
				}
				closedByServer = isEOF(err)
			} else {
				all = append(all, r)
				if r.Code != 250 && !(c.Panic != "" && r.Code == 421) {
					finals = append(finals, r) // an extra reply where NOOP's 250 was expected
				}
			}
			break
		}
	}
	var finals2 []wire.Reply
	secondRan := false
	if len(c.Second) > 0 && deadlock == "" && len(finals) == n && !closedByServer {
		var lines []string
		for _, a := range c.Second {
			lines = append(lines, "RCPT TO:<"+c.addr(a)+">")
		}
		p.SendStr("MAIL FROM:<s2@x.test>\r\n" + strings.Join(lines, "\r\n") + "\r\n")
		rs, err := expect(p, 1+len(lines))
		all = append(all, rs...)
		if err == nil && sendTransfer() {
			secondRan = true
			for len(finals2) < len(c.Second) {
				r, err := p.ReadReply()
				if err != nil {
					if isWatchdog(err) {
						deadlock = c13Deadlock(rig, p)
						if deadlock == "" {
							continue
						}
					}
					break
				}
				finals2 = append(finals2, r)
				all = append(all, r)
			}
			if deadlock == "" {
				p.SendStr("NOOP\r\n")
				if r, err := p.ReadReply(); err == nil && r.Code != 250 {
					finals2 = append(finals2, r)
				}
			}
		}
	}
	if deadlock != "" && deadlock != "inconclusive" {
		// the handler is stuck for good: do not wait for it
		p.Close()
		rig.Abort()
	} else {
		finish()
	}
	ctx.Add("replies_parsed", int64(len(all)))
	ctx.Add("backend_events", countBackendEvents(rig.Log.Events()))
	if secondRan && deadlock == "" {
		if len(finals2) != len(c.Second) {
			fail("C13:second-transaction-reply-count", fmt.Sprintf("second transaction: %d recipients but %d final replies: %s", len(c.Second), len(finals2), codes(finals2)))
			return
		}
		for i, r := range finals2 {
			rc := c.addr(c.Second[i])
			// per-address FIFO: the i-th recipient's status is the one set for its occurrence
			occ := 0
			for j := 0; j < i; j++ {
				if c.Second[j] == c.Second[i] {
					occ++
				}
			}
			k := -1
			seen := 0
			for j, a := range c.Second {
				if a == c.Second[i] {
					if seen == occ {
						k = j
						break
					}
					seen++
				}
			}
			if !strings.Contains(r.Text(), "<"+rc+"> ") || !strings.Contains(r.Text(), fmt.Sprintf("v#t2-%d ", k)) || r.Code != 450+k {
				fail("C13:second-transaction-attribution", fmt.Sprintf("second transaction: reply #%d for <%s> is %s, expected %d v#t2-%d", i, rc, r, 450+k, k))
				return
			}
		}
	} else if len(c.Second) > 0 && deadlock == "" && len(finals) == n && !closedByServer {
		fail("C13:second-transaction-refused", "the second transaction on the same connection could not be started")
		return
	}
	if deadlock == "inconclusive" {
		ctx.Inconclusive("C13 watchdog without a deadlock state")
		return
	}
	if deadlock != "" {
		fail("C13:deadlock", "the server neither replies nor reads although the backend has returned: "+deadlock)
		return
	}
	// the message itself must have reached the backend intact whatever the status timing
	if !panicked0(c) && !strings.HasPrefix(c.Transfer, "bdatfail") {
		for di, d := range dataEnds(rig.Log.Events()) {
			if di == 0 && d.A != msg {
				fail("C13:message-octets-differ", fmt.Sprintf("the backend read %q, the client sent %q", d.A, msg))
				return
			}
		}
	}
	// reference attribution
	type exp struct {
		nilStatus bool
		token     string
		code      int
	}
	var want []exp
	plainResult := func() exp {
		if c.RetErr {
			return exp{false, "v#ret", 554}
		}
		return exp{true, "", 250}
	}
	if c.Backend == "plain" {
		for range c.Rcpts {
			want = append(want, plainResult())
		}
	} else {
		fifo := map[string][]int{}
		for k, call := range c.Calls {
			fifo[call.Addr] = append(fifo[call.Addr], k)
		}
		for _, rc := range c.Rcpts {
			if q := fifo[rc]; len(q) > 0 {
				k := q[0]
				fifo[rc] = q[1:]
				if c.Calls[k].Nil {
					want = append(want, exp{true, "", 250})
				} else {
					want = append(want, exp{false, tokenOf(k), []int{550, 451, 552, 450}[k%4]})
				}
			} else {
				want = append(want, plainResult())
			}
		}
	}
	panicked := c.Panic == "first" || c.Panic == "aftercalls" || c.Panic == "toooften" || c.Panic == "unknown"
	sigFor := func(s string) string {
		if strings.HasPrefix(c.Transfer, "bdatfail") {
			return s + ":early-failure"
		}
		return s
	}
	if !panicked {
		if len(finals) != n {
			fail(sigFor("C13:reply-count"), fmt.Sprintf("%d accepted recipients but %d final replies: %s", n, len(finals), codes(finals)))
			return
		}
	} else {
		// RFC 5321 3.8: either all n replies, or a 421 and the connection closed
		if len(finals) != n && !(closedByServer || (len(finals) > 0 && finals[len(finals)-1].Code == 421)) {
			fail("C13:panic-reply-count", fmt.Sprintf("after a backend panic the server sent %d of %d replies (%s) and kept the connection open", len(finals), n, codes(finals)))
			return
		}
	}
	for i, r := range finals {
		if i >= n {
			break
		}
		rc := c.addr(c.Rcpts[i])
		txt := r.Text()
		if !strings.Contains(txt, "<"+rc+"> ") {
			if r.Code == 421 && panicked {
				continue
			}
			fail(sigFor("C13:recipient-not-named"), fmt.Sprintf("reply #%d (%s) does not name recipient <%s>", i, r, rc))
			return
		}
		if c.Panic == "late" {
			// SetStatus after LMTPData returned violates the backend contract; which of the
			// late statuses (if any) is reported is unspecified. Only count, naming and the
			// absence of crashes / deadlocks are judged for this case.
			continue
		}
		if panicked {
			// statuses attributed before the panic must be correct; the rest may be 421
			if r.Code == 421 {
				continue
			}
			if c.Panic == "first" {
				fail("C13:panic-attribution", fmt.Sprintf("reply #%d is %s although the backend panicked before setting any status", i, r))
				return
			}
		}
		w := want[i]
		if c.Panic == "toooften" && c.Rcpts[i] == c.Rcpts[0] && r.Class() == 2 {
			continue // the surplus nil statuses for the first address may legitimately be consumed
		}
		if w.nilStatus {
			if r.Class() != 2 {
				fail("C13:attribution", fmt.Sprintf("reply #%d for <%s> is %s, the reference attributes a nil (success) status", i, rc, r))
				return
			}
		} else if r.Code != w.code || !strings.Contains(txt, w.token) {
			fail("C13:attribution", fmt.Sprintf("reply #%d for <%s> is %s, the reference attributes status %d %s", i, rc, r, w.code, w.token))
			return
		} else {
			// the status text itself must arrive verbatim after the recipient
			full := "v#ret overall result 50% full %v"
			if w.token != "v#ret" {
				full = w.token + " per-recipient status 100% %s %d%%"
			}
			if !strings.HasSuffix(txt, "<"+rc+"> "+full) {
				fail("C13:status-text-altered", fmt.Sprintf("reply #%d for <%s> is %q, the backend's status text is %q", i, rc, txt, full))
				return
			}
		}
	}
	if c.Panic == "" {
		if pm := logPanic(rig.Log.Events()); pm != "" {
			fail("C13:recovered-panic", "the backend script does not panic, yet the server recovered one while fanning out the statuses: "+clipStr(pm, 300))
			return
		}
	}
	cls := fmt.Sprintf("%s/%s/%s", c.Backend, c.Transfer, c.Panic)
	if ctx.WantSample(cls) {
		ctx.Sample(cls, map[string]any{"rcpts": c.Rcpts, "calls": fmt.Sprint(c.Calls), "timing": c.Timing, "ret_err": c.RetErr, "panic": c.Panic, "transfer": c.Transfer, "backend": c.Backend, "finals": replyStrings(finals)})
	}
}

// c13Deadlock decides, after a watchdog expiry, whether the connection is in a deadlock state:
// the backend call has returned, the client has nothing more to send, and for 300 consecutive
// polls the server is neither parked reading nor producing output. Returns "" (progressing),
// "inconclusive", or a description.
func c13Deadlock(rig *wire.Rig, p *wire.Peer) string {
	lastLen := -1
	stable := 0
	for i := 0; i < 3000; i++ {
		ev := rig.Log.Events()
		b, e := 0, 0
		for _, x := range ev {
			if x.Kind == "Data" || x.Kind == "LMTPData" {
				if x.Ph == "b" {
					b++
				} else {
					e++
				}
			}
		}
		st := p.Raw.PeerReadStats()
		if b == e && !st.Parked && !st.ReaderClosed && len(ev) == lastLen {
			stable++
		} else {
			stable = 0
		}
		lastLen = len(ev)
		if st.Parked || st.ReaderClosed {
			return "" // the server is reading or has closed: the caller's Read will see it
		}
		if stable >= 300 {
			var desc []string
			for _, g := range detect.LibGoroutines(detect.Snapshot()) {
				if strings.Contains(g.Raw, "handleDataLMTP") || strings.Contains(g.Raw, "handleBdat") {
					if strings.Contains(g.State, "chan") || strings.Contains(g.State, "select") || strings.Contains(g.State, "semacquire") || strings.Contains(g.State, "sync") {
						desc = append(desc, g.Summary())
					}
				}
			}
			if len(desc) == 0 {
				return "inconclusive"
			}
			if len(desc) > 4 {
				desc = desc[:4]
			}
			return strings.Join(desc, " ; ")
		}
		time.Sleep(time.Millisecond)
	}
	return "inconclusive"
}

func panicked0(c c13Case) bool { return c.Panic != "" && c.Panic != "late" }
