package props

import (
	"encoding/json"
	"fmt"
	"regexp"
	"runtime"
	"strings"
	"sync"
	"sync/atomic"
	"time"

	"github.com/emersion/go-sasl"
	smtp "github.com/emersion/go-smtp"

	"verifharness/core"
	"verifharness/detect"
	"verifharness/memconn"
	"verifharness/rec"
	"verifharness/wire"
)

// C08 — each session is logged out exactly once; nothing runs after the connection ends.

type c08Case struct {
	Kind string `json:"kind"` // cut | srvend | tlscut | closeoverlap | writefail

	// cut
	CSeed   uint64 `json:"cseed"`
	Conv    int    `json:"conv"`
	Name    string `json:"name"`
	Cut     int    `json:"cut"`
	Failure string `json:"failure"` // close | timeout | reset
	Seg     string `json:"seg"`

	// srvend
	Reason      string   `json:"reason"` // quit | errors | longline | timeout | panic
	Suffix      []string `json:"suffix"`
	ReadTimeout bool     `json:"read_timeout"`
	Mode        srvMode  `json:"mode"`
	Procs       int      `json:"procs"`
}

func init() {
	register(&Prop{ID: "C08", Level: "fault_enumeration", Run: c08Run, Replay: func(ctx *core.Ctx, raw json.RawMessage) error {
		return core.ReplayCase(ctx, raw, c08Exec)
	}, Parts: func(tier string) []Part {
		if tier == "thorough" {
			return []Part{{Name: "main"}, {Name: "p1", GOMAXPROCS: 1}, {Name: "race", Race: true}}
		}
		return []Part{{Name: "main"}, {Name: "p1", GOMAXPROCS: 1}}
	}})
}

func c08Corpus() []conv { return append(corpus(), authCorpus()...) }

var c08SuffixAlphabet = []string{"HELLO", "MAIL", "RCPT", "DATA", "BDAT3", "BDAT0", "NOOP", "QUIT", "GARBAGE"}

func c08Render(tok string, mode srvMode, k int) string {
	switch tok {
	case "HELLO":
		return mode.hello() + "\r\n"
	case "MAIL":
		return fmt.Sprintf("MAIL FROM:<after%d@x.test>\r\n", k)
	case "RCPT":
		return fmt.Sprintf("RCPT TO:<after%d@x.test>\r\n", k)
	case "DATA":
		return "DATA\r\nafter-body\r\n.\r\n"
	case "BDAT3":
		return "BDAT 3 LAST\r\nabc"
	case "BDAT0":
		return "BDAT 0\r\n"
	case "NOOP":
		return "NOOP\r\n"
	case "QUIT":
		return "QUIT\r\n"
	}
	return "\x00\xff garbage\r\n"
}

func c08Run(ctx *core.Ctx) {
	cs := c08Corpus()
	ctx.Rule = fmt.Sprintf("(1) every octet offset of %d conversations (DATA, BDAT, AUTH exchanges; SMTP/LMTP) x {clean close, timeout error, reset error} x {one segment, per line}; (2) a STARTTLS conversation cut at every plaintext offset and at every offset of the inner TLS conversation; (3) server-initiated ends {QUIT, error threshold, over-long line, idle timeout (virtual deadline), backend panic inside Mail / NewSession / Rcpt / Data (early, and after the whole message was read, via DATA and via BDAT LAST) / Reset; Conn.Reject called from NewSession} x every suffix of length <=2 over %v already buffered in the closing command's segment x ReadTimeout {0, set} x {SMTP, LMTP}; each part also at GOMAXPROCS=1. Oracle: session-lifecycle automaton over the backend event log + goroutine table at the end of the run. Non-trivial: the connection ends while a session exists; distinct by full case.", len(cs), c08SuffixAlphabet)
	ctx.Exhaustive = true
	ctx.Assumptions = []string{"goroutine leak check is global: at the end of the run no goroutine with a go-smtp frame may remain", "known finding C08:data-begins-after-logout is matched only when the late Data call read zero octets"}
	core.RunCases(ctx, func(emit func(c08Case)) {
		for ci, c := range cs {
			n := len(c.bytes())
			for cut := 0; cut <= n; cut++ {
				for fi, f := range []string{"close", "timeout", "reset"} {
					sg := []string{"one", "line"}[(cut+fi)%2]
					emit(c08Case{Kind: "cut", Conv: ci, Name: c.Name, Cut: cut, Failure: f, Seg: sg, Mode: c.Mode})
					if ctx.Thorough() {
						emit(c08Case{Kind: "cut", Conv: ci, Name: c.Name, Cut: cut, Failure: f, Seg: []string{"line", "one"}[(cut+fi)%2], Mode: c.Mode})
					}
				}
			}
		}
		if ctx.Thorough() {
			for k := 0; k < 2500; k++ {
				cv := seededConv(ctx.Seed+1, k)
				n := len(cv.bytes())
				for cut := 0; cut <= n; cut++ {
					emit(c08Case{Kind: "cut", CSeed: ctx.Seed + 1, Conv: k, Name: cv.Name, Cut: cut, Failure: []string{"close", "timeout", "reset"}[cut%3], Seg: []string{"one", "line"}[(cut/3)%2], Mode: cv.Mode})
				}
			}
		}
		// the peer sends a whole conversation and goes away: its input can still be read, but the
		// k-th write of the server (greeting, replies, 354 ...) and every later one fails
		for ci, c := range cs {
			for k := 0; k <= len(c.Steps)+4; k++ {
				for fi, f := range []string{"reset", "timeout"} {
					emit(c08Case{Kind: "writefail", Conv: ci, Name: c.Name, Cut: k, Failure: f, Seg: []string{"one", "line"}[(k+fi)%2], Mode: c.Mode, ReadTimeout: (k+ci)%3 == 0})
				}
			}
		}
		inner := c08TLSInner()
		for cut := 0; cut <= len(inner); cut++ {
			for _, f := range []string{"close", "reset"} {
				emit(c08Case{Kind: "tlscut", Cut: cut, Failure: f})
			}
		}
		for _, reason := range []string{"quit", "disconnect", "errors", "panic"} {
			for _, who := range []string{"Server.Close", "Conn.Close"} {
				for rep := 0; rep < 4; rep++ {
					emit(c08Case{Kind: "closeoverlap", Reason: reason, Failure: who, Cut: rep, Mode: modeSMTP, Seg: "Logout"})
				}
			}
		}
		// the second closer runs while another callback kind is in progress
		for _, park := range []string{"NewSession", "Mail", "Rcpt", "Data"} {
			for _, who := range []string{"Server.Close", "Conn.Close"} {
				for rep := 0; rep < 4; rep++ {
					emit(c08Case{Kind: "closeoverlap", Reason: "pipelined", Failure: who, Cut: rep, Mode: modeSMTP, Seg: park})
				}
			}
		}
		for _, mode := range []srvMode{modeSMTP, modeLMTPRcpt} {
			for _, reason := range []string{"quit", "errors", "errors:FOO", "errors:ABCDE", "errors:", "errors:mixed", "longline", "timeout", "panic", "panic:NewSession", "panic:Rcpt", "panic:Data", "panic:Reset", "panic:BdatLast", "panic:DataAtEOF", "reject", "reject+session", "timeout-in-auth", "timeout-in-data"} {
				for _, rt := range []bool{false, true} {
					if strings.HasPrefix(reason, "timeout") && !rt {
						continue
					}
					sufLen := 2
					if strings.HasPrefix(reason, "panic:") || strings.HasPrefix(reason, "reject+") {
						sufLen = 1
					}
					core.Strings(c08SuffixAlphabet, sufLen, func(parts []string) {
						emit(c08Case{Kind: "srvend", Reason: reason, Suffix: append([]string{}, parts...), ReadTimeout: rt, Mode: mode})
					})
				}
			}
		}
	}, c08Exec)
	c08LeakCheck(ctx)
}

// c08LeakCheck: when every case has ended no goroutine with a library frame may remain.
func c08LeakCheck(ctx *core.Ctx) {
	var prev map[string]string
	for i := 0; i < 400; i++ {
		gs := detect.LibGoroutines(detect.Snapshot())
		ctx.Add("goroutine_snapshots", 1)
		if len(gs) == 0 {
			return
		}
		cur := map[string]string{}
		blocked := true
		for _, g := range gs {
			cur[g.ID] = g.State
			if g.State == "running" || g.State == "runnable" {
				blocked = false
			}
		}
		if i >= 100 && blocked && prev != nil && fmt.Sprint(prev) == fmt.Sprint(cur) {
			var lines []string
			for _, g := range gs {
				lines = append(lines, g.Summary())
				lines = append(lines, strings.Split(g.Raw, "\n")...)
				if len(lines) > 100 {
					break
				}
			}
			ctx.Violate(ctx.Prop+":goroutine-left-behind", fmt.Sprintf("%d goroutine(s) with go-smtp frames are still parked after every connection ended", len(gs)), map[string]any{"kind": "leakcheck"}, lines)
			return
		}
		prev = cur
		time.Sleep(5 * time.Millisecond)
	}
	ctx.Inconclusive("library goroutines still running at the end of the run")
}

func c08TLSInner() []byte {
	return []byte("EHLO tls.test\r\nMAIL FROM:<t@x.test>\r\nRCPT TO:<u@x.test>\r\nBDAT 4\r\nabcdDATA\r\nQUIT\r\n")
}

type c08plain struct{}

func (c08plain) Next(resp []byte) ([]byte, bool, error) {
	if resp == nil {
		return []byte{}, false, nil
	}
	return nil, true, nil
}

func c08Exec(ctx *core.Ctx, c c08Case) {
	if c.Procs > 0 {
		// informational only: GOMAXPROCS is set per child process
	}
	switch c.Kind {
	case "closeoverlap":
		c08CloseOverlap(ctx, c)
	case "writefail":
		c08WriteFail(ctx, c)
	case "cut":
		c08Cut(ctx, c)
	case "tlscut":
		c08TLSCut(ctx, c)
	case "srvend":
		c08SrvEnd(ctx, c)
	case "leakcheck":
		c08LeakCheck(ctx)
	}
}

// c08Lifecycle applies the session-lifecycle automaton. giveUp is the log sequence number after
// which the server must not execute anything (0 = not applicable).
func c08Lifecycle(ctx *core.Ctx, c c08Case, l *rec.Log, replies []wire.Reply, giveUp int, reason string) bool {
	ev := l.Events()
	ctx.Add("backend_events", countBackendEvents(ev))
	fail := func(sig, msg string) bool {
		ctx.Violate(sig, msg+fmt.Sprintf(" [%s]", c08Desc(c)), c, witness(l, replies))
		return false
	}
	logout := map[int]int{} // session -> count
	logoutSeq := map[int]int{}
	created := map[int]bool{}
	dataRead := map[int]string{} // Data begin seq -> octets read (filled from the matching end)
	var openData []int
	for _, e := range ev {
		if (e.Kind == "Data" || e.Kind == "LMTPData") && e.Ph == "b" {
			openData = append(openData, e.Seq)
		}
		if (e.Kind == "Data" || e.Kind == "LMTPData") && e.Ph == "e" && len(openData) > 0 {
			dataRead[openData[0]] = e.A
			openData = openData[1:]
		}
	}
	seq421 := 0
	for _, e := range ev {
		if e.Kind == "s2c" && strings.HasPrefix(e.A, "421 ") && seq421 == 0 {
			seq421 = e.Seq // 421 = "service not available, closing transmission channel"
		}
		if seq421 > 0 && e.Seq > seq421 && e.Ph == "b" {
			switch e.Kind {
			case "NewSession", "Mail", "Rcpt", "Auth", "SaslNext": // not Data: a chunked delivery begins asynchronously
				return fail("C08:commands-executed-after-close:421", fmt.Sprintf("%s(%q) executed after the server had announced 421 (closing the transmission channel)", e.Kind, e.A))
			}
		}
		switch {
		case e.Kind == "NewSession" && e.Ph == "e" && e.Err == "":
			created[e.Sess] = true
		case e.Kind == "Logout" && e.Ph == "b":
			logout[e.Sess]++
			if logout[e.Sess] == 1 {
				logoutSeq[e.Sess] = e.Seq
			}
		}
		if e.Ph == "b" && e.Sess != 0 && e.Kind != "Logout" && e.Kind != "NewSession" {
			if ls, ok := logoutSeq[e.Sess]; ok && e.Seq > ls {
				if (e.Kind == "Data" || e.Kind == "LMTPData") && dataRead[e.Seq] == "" {
					return fail("C08:data-begins-after-logout:transfer-aborted-before-first-octet", fmt.Sprintf("%s on session %d began after its Logout (the chunked transfer was aborted before any octet reached the backend)", e.Kind, e.Sess))
				}
				return fail("C08:callback-after-logout:"+e.Kind, fmt.Sprintf("%s on session %d began after its Logout", e.Kind, e.Sess))
			}
		}
		if giveUp > 0 && e.Seq > giveUp && e.Ph == "b" {
			switch e.Kind {
			case "NewSession", "Mail", "Rcpt", "Data", "LMTPData", "Auth":
				return fail("C08:commands-executed-after-close:"+reason, fmt.Sprintf("%s(%q) executed after the server had ended the connection (%s)", e.Kind, e.A, reason))
			}
		}
	}
	for s := range created {
		if logout[s] != 1 {
			return fail(fmt.Sprintf("C08:logout-count-%d", min(logout[s], 2)), fmt.Sprintf("session %d received %d Logout calls", s, logout[s]))
		}
	}
	for _, e := range ev {
		if c.Kind == "closeoverlap" && e.Kind == "log" && strings.Contains(e.A, "nil pointer dereference") {
			// Server.Close / Conn.Close on another goroutine takes the session away between the command
			// loop's "closed?" test and a buffered command's use of the session: the handler
			// dereferences nil, the panic is recovered, and neither the backend nor the peer sees
			// anything. No clause of the statement speaks about it (same decision as in C20, DESIGN.md
			// section 9.3); it is counted, not judged.
			ctx.Add("recovered_nil_session_panics_under_external_close_not_judged", 1)
			continue
		}
		if e.Kind == "log" && strings.Contains(e.A, "panic") && !strings.HasPrefix(reason, "panic") {
			return fail("C08:recovered-panic", "a panic was recovered while serving: "+clipStr(e.A, 300))
		}
	}
	return true
}

func clipStr(s string, n int) string {
	if len(s) > n {
		return s[:n] + "..."
	}
	return s
}

func c08Desc(c c08Case) string {
	switch c.Kind {
	case "writefail":
		return fmt.Sprintf("writefail conv=%s writes-before-failure=%d failure=%s seg=%s readtimeout=%v", c.Name, c.Cut, c.Failure, c.Seg, c.ReadTimeout)
	case "cut":
		return fmt.Sprintf("cut conv=%s mode=%s cut=%d failure=%s seg=%s", c.Name, c.Mode, c.Cut, c.Failure, c.Seg)
	case "tlscut":
		return fmt.Sprintf("tlscut cut=%d failure=%s", c.Cut, c.Failure)
	}
	if c.Kind == "closeoverlap" {
		return fmt.Sprintf("closeoverlap reason=%s second=%s rep=%d parked-in=%s", c.Reason, c.Failure, c.Cut, c.Seg)
	}
	return fmt.Sprintf("srvend reason=%s suffix=%v readTimeout=%v mode=%s", c.Reason, c.Suffix, c.ReadTimeout, c.Mode)
}

func c08AuthHooks(rig *wire.Rig) {
	rig.BE.H.AuthMechs = func(int) []string { return []string{"PLAIN"} }
	rig.BE.H.Auth = func(sess int, mech string) (sasl.Server, error) { return c08plain{}, nil }
}

func c08Cut(ctx *core.Ctx, c c08Case) {
	cv, okc := convFor(c08Corpus(), c.CSeed, c.Conv)
	if !okc {
		ctx.Broken("C08: bad conversation index")
		return
	}
	all := cv.bytes()
	if c.Cut > len(all) {
		c.Cut = len(all)
	}
	if gaveUp("c08cut|" + cv.Name) {
		ctx.Add("cases_skipped_after_an_established_hang", 1)
		return
	}
	ctx.Eval(fmt.Sprintf("cut|%d|%d|%d|%s|%s", c.CSeed, c.Conv, c.Cut, c.Failure, c.Seg), c.Cut >= len(cv.Steps[0].B))
	kind := cv.Mode.kind()
	if cv.Auth {
		kind = rec.Auth
	}
	rig := wire.NewRig(kind, func(s *smtp.Server) {
		s.LMTP = cv.Mode.lmtp()
		s.AllowInsecureAuth = true
	})
	c08AuthHooks(rig)
	p := rig.Dial()
	sendPrefix(p, all[:c.Cut], c.Seg)
	switch c.Failure {
	case "timeout":
		p.Raw.CloseWriteWithError(memconn.ErrTimeout)
	case "reset":
		p.Raw.CloseWriteWithError(memconn.ErrReset)
	default:
		p.Raw.CloseWrite()
	}
	replies, err := p.ReadAll()
	p.Close()
	fin := rig.Finish()
	ends := waitDataEnds(rig.Log)
	if isWatchdog(err) || !fin || !ends {
		// the remaining cuts of this conversation would each cost the same watchdog periods; the
		// goroutine table at the end of the run decides (goroutine-left-behind)
		giveUp("c08cut|" + cv.Name)
		ctx.Inconclusive("C08 watchdog " + c08Desc(c))
		return
	}
	ctx.Add("replies_parsed", int64(len(replies)))
	// a command is a line that was received up to and including its CRLF: what the peer had
	// sent of the next line when it disconnected must not be executed
	complete := map[string]int{}
	off := 0
	for _, st := range cv.Steps {
		off += len(st.B)
		if off > c.Cut {
			break
		}
		up := strings.ToUpper(string(st.B))
		switch {
		case strings.HasPrefix(up, "MAIL FROM:"):
			complete["Mail"]++
		case strings.HasPrefix(up, "RCPT TO:"):
			complete["Rcpt"]++
		case strings.HasPrefix(up, "EHLO "), strings.HasPrefix(up, "LHLO "), strings.HasPrefix(up, "HELO "):
			complete["NewSession"]++
		}
	}
	began := map[string]int{}
	for _, e := range rig.Log.Events() {
		if e.Ph == "b" {
			began[e.Kind]++
		}
	}
	for _, k := range []string{"NewSession", "Mail", "Rcpt"} {
		if began[k] > complete[k] {
			ctx.Violate("C08:unterminated-command-executed", fmt.Sprintf("%d %s callbacks began although only %d such commands had been received completely when the peer disconnected [%s]", began[k], k, complete[k], c08Desc(c)), c, witness(rig.Log, replies))
			return
		}
	}
	if c08Lifecycle(ctx, c, rig.Log, replies, 0, "") {
		cls := "cut/" + string(cv.Mode) + "/" + c.Failure
		if ctx.WantSample(cls) {
			ctx.Sample(cls, map[string]any{"conv": cv.Name, "cut": c.Cut, "failure": c.Failure, "replies": codes(replies), "events": len(rig.Log.Events())})
		}
	}
}

// c08WriteFail: the whole conversation is on the wire and the peer is gone; the server's writes
// fail from the Cut-th one on. Whatever the server makes of a failed write, the session lifecycle
// holds: one Logout per session, nothing after it, no panic, no goroutine left.
func c08WriteFail(ctx *core.Ctx, c c08Case) {
	cv, okc := convFor(c08Corpus(), c.CSeed, c.Conv)
	if !okc {
		ctx.Broken("C08: bad conversation index")
		return
	}
	ctx.Eval(fmt.Sprintf("writefail|%d|%d|%s|%s|%v", c.Conv, c.Cut, c.Failure, c.Seg, c.ReadTimeout), true)
	kind := cv.Mode.kind()
	if cv.Auth {
		kind = rec.Auth
	}
	rig := wire.NewRig(kind, func(s *smtp.Server) {
		s.LMTP = cv.Mode.lmtp()
		s.AllowInsecureAuth = true
		if c.ReadTimeout {
			s.ReadTimeout, s.WriteTimeout = time.Hour, time.Hour // virtual clock: never expire by themselves
		}
	})
	c08AuthHooks(rig)
	werr := error(memconn.ErrReset)
	if c.Failure == "timeout" {
		werr = memconn.ErrTimeout
	}
	p := rig.DialWith(func(srv *memconn.Conn) { srv.FailWriteAfter(c.Cut, werr) })
	sendPrefix(p, cv.bytes(), c.Seg)
	p.Raw.CloseWrite()
	replies, err := p.ReadAll()
	p.Close()
	fin := rig.Finish()
	ends := waitDataEnds(rig.Log)
	if isWatchdog(err) || !fin || !ends {
		ctx.Inconclusive("C08 watchdog " + c08Desc(c))
		return
	}
	ctx.Add("replies_parsed", int64(len(replies)))
	ctx.Add("server_write_failures_injected", 1)
	if c08Lifecycle(ctx, c, rig.Log, replies, 0, "") {
		cls := "writefail/" + string(cv.Mode) + "/" + c.Failure
		if ctx.WantSample(cls) {
			ctx.Sample(cls, map[string]any{"conv": cv.Name, "writes_before_failure": c.Cut, "failure": c.Failure, "replies_that_got_out": codes(replies), "events": len(rig.Log.Events())})
		}
	}
}

func c08TLSCut(ctx *core.Ctx, c c08Case) {
	inner := c08TLSInner()
	if c.Cut > len(inner) {
		c.Cut = len(inner)
	}
	ctx.Eval(fmt.Sprintf("tlscut|%d|%s", c.Cut, c.Failure), true)
	rig := wire.NewRig(rec.Plain, func(s *smtp.Server) { s.TLSConfig = wire.ServerTLS() })
	p := rig.Dial()
	p.SendStr("EHLO plain.test\r\nMAIL FROM:<p@x.test>\r\nSTARTTLS\r\n")
	head, err := expect(p, 4)
	if err != nil || head[3].Code != 220 {
		p.Close()
		rig.Finish()
		if isWatchdog(err) {
			ctx.Inconclusive("C08 tls watchdog")
			return
		}
		ctx.Violate("C08:starttls-preamble", fmt.Sprintf("STARTTLS preamble failed: %v %s", err, codes(head)), c, witness(rig.Log, head))
		return
	}
	if err := p.StartTLSClient(); err != nil {
		p.Close()
		rig.Finish()
		ctx.Violate("C08:starttls-handshake", "handshake failed: "+err.Error(), c, witness(rig.Log, head))
		return
	}
	p.Send(inner[:c.Cut])
	if c.Failure == "reset" {
		p.Raw.CloseWriteWithError(memconn.ErrReset)
	} else {
		p.CloseWrite()
	}
	replies, err := p.ReadAll()
	p.Close()
	fin := rig.Finish()
	ends := waitDataEnds(rig.Log)
	if isWatchdog(err) || !fin || !ends {
		ctx.Inconclusive("C08 watchdog " + c08Desc(c))
		return
	}
	ctx.Add("replies_parsed", int64(len(replies)+len(head)))
	if c08Lifecycle(ctx, c, rig.Log, replies, 0, "") {
		if ctx.WantSample("tlscut") {
			ctx.Sample("tlscut", map[string]any{"cut": c.Cut, "failure": c.Failure, "replies_inside_tls": codes(replies)})
		}
	}
}

var finalLine = regexp.MustCompile(`^\d\d\d( |\r?\n|$)`)

// c08TimeoutInside: the idle timeout fires while the server waits for the continuation of an
// AUTH exchange or for message octets. Whatever it answers, once it has announced 421 nothing
// of what the client sends later may be executed, and a message cut by the timeout must not
// be delivered as complete.
func c08TimeoutInside(ctx *core.Ctx, c c08Case) {
	ctx.Eval(fmt.Sprintf("srvend|%s|%v|%s", c.Reason, c.Suffix, c.Mode), true)
	kind := rec.Auth
	if c.Mode == modeLMTPRcpt {
		kind = rec.AuthLMTP
	}
	rig := wire.NewRig(kind, func(s *smtp.Server) {
		s.LMTP = c.Mode.lmtp()
		s.AllowInsecureAuth = true
		s.ReadTimeout = time.Hour
	})
	c08AuthHooks(rig)
	p := rig.Dial()
	defer p.Close()
	var replies []wire.Reply
	if c.Reason == "timeout-in-auth" {
		p.SendStr(c.Mode.hello() + "\r\nAUTH PLAIN\r\n")
		rs, _ := expect(p, 3)
		replies = append(replies, rs...)
	} else {
		p.SendStr(c.Mode.hello() + "\r\nMAIL FROM:<s@x.test>\r\nRCPT TO:<r@x.test>\r\nDATA\r\n")
		rs, _ := expect(p, 5)
		replies = append(replies, rs...)
		p.SendStr("partial body\r\n")
	}
	if idle, err := p.Raw.WaitPeerIdle(wire.Watchdog); err != nil || !idle {
		rig.Finish()
		ctx.Inconclusive("C08 timeout-inside: server did not go idle")
		return
	}
	if !p.SrvEnd.FireReadDeadline() {
		p.Close()
		rig.Finish()
		ctx.Violate("C08:no-read-deadline", "ReadTimeout is set but the server waits inside "+c.Reason+" without a read deadline", c, witness(rig.Log, replies))
		return
	}
	rs, _ := p.ReadUntilStall()
	replies = append(replies, rs...)
	var suffix string
	for i, t := range c.Suffix {
		suffix += c08Render(t, c.Mode, i)
	}
	p.SendStr(suffix)
	p.Raw.CloseWrite()
	rs, rerr := p.ReadAll()
	replies = append(replies, rs...)
	p.Close()
	fin := rig.Finish()
	ends := waitDataEnds(rig.Log)
	if isWatchdog(rerr) || !fin || !ends {
		ctx.Inconclusive("C08 watchdog " + c08Desc(c))
		return
	}
	ctx.Add("replies_parsed", int64(len(replies)))
	for _, d := range dataEnds(rig.Log.Events()) {
		if c.Reason == "timeout-in-data" && d.A == "partial body\r\n" && d.B == "EOF" {
			ctx.Violate("C08:timed-out-message-complete", "a DATA transfer cut by the idle timeout was delivered as complete", c, witness(rig.Log, replies))
			return
		}
	}
	if c08Lifecycle(ctx, c, rig.Log, replies, 0, c.Reason) {
		if ctx.WantSample("srvend/" + c.Reason) {
			ctx.Sample("srvend/"+c.Reason, map[string]any{"reason": c.Reason, "suffix": c.Suffix, "mode": c.Mode, "replies": codes(replies)})
		}
	}
}

func c08SrvEnd(ctx *core.Ctx, c c08Case) {
	if c.Reason == "timeout-in-auth" || c.Reason == "timeout-in-data" {
		c08TimeoutInside(ctx, c)
		return
	}
	if gaveUp("c08srvend|" + c.Reason) {
		ctx.Add("cases_skipped_after_an_established_hang", 1)
		return
	}
	ctx.Eval(fmt.Sprintf("srvend|%s|%v|%v|%s", c.Reason, c.Suffix, c.ReadTimeout, c.Mode), true)
	rig := newRig(c.Mode, func(s *smtp.Server) {
		if c.ReadTimeout {
			s.ReadTimeout = time.Hour // virtual: expires only when the harness fires it
		}
		s.MaxLineLength = 200
	})
	rig.BE.H.Mail = func(sess int, from string, o *smtp.MailOptions) error {
		if strings.HasPrefix(from, "panic") {
			panic("scripted backend panic v#77")
		}
		return nil
	}
	switch c.Reason {
	case "panic:NewSession":
		rig.BE.H.NewSession = func(cn *smtp.Conn, sess int) error {
			if strings.HasPrefix(cn.Hostname(), "panic") {
				panic("scripted backend panic v#77 in NewSession")
			}
			return nil
		}
	case "panic:Rcpt":
		rig.BE.H.Rcpt = func(sess int, to string, o *smtp.RcptOptions) error {
			if strings.HasPrefix(to, "panic") {
				panic("scripted backend panic v#77 in Rcpt")
			}
			return nil
		}
	case "panic:Data":
		rig.BE.H.Data = func(sess int, r *rec.Reader, st smtp.StatusCollector) error {
			r.ReadN(4, 4)
			if strings.HasPrefix(string(r.Got), "PANI") {
				panic("scripted backend panic v#77 in Data")
			}
			r.ReadAll(64)
			return nil
		}
	case "reject", "reject+session":
		// the backend turns the connection away from inside NewSession with Conn.Reject (421 and
		// the connection is over), returning an error or - carelessly - a session all the same
		rig.BE.H.NewSession = func(cn *smtp.Conn, sess int) error {
			if strings.HasPrefix(cn.Hostname(), "busy") {
				cn.Reject()
				if c.Reason == "reject" {
					return &smtp.SMTPError{Code: 421, EnhancedCode: smtp.EnhancedCode{4, 4, 5}, Message: "v#busy"}
				}
			}
			return nil
		}
	case "panic:BdatLast", "panic:DataAtEOF":
		// the backend reads the whole message and panics afterwards: the panic surfaces when the
		// final reply is due
		rig.BE.H.Data = func(sess int, r *rec.Reader, st smtp.StatusCollector) error {
			r.ReadAll(64)
			if strings.HasPrefix(string(r.Got), "PANI") {
				panic("scripted backend panic v#77 after reading the message")
			}
			return nil
		}
	case "panic:Reset":
		var once atomic.Bool
		rig.BE.H.Reset = func(sess int) {
			if once.CompareAndSwap(false, true) {
				panic("scripted backend panic v#77 in Reset")
			}
		}
	}
	p := rig.Dial()
	defer p.Close()
	var suffix string
	for i, t := range c.Suffix {
		suffix += c08Render(t, c.Mode, i)
	}
	// closing script; nBefore = number of replies (incl. greeting) before the closing reply
	var script string
	nBefore := 0
	switch c.Reason {
	case "quit":
		script = c.Mode.hello() + "\r\nMAIL FROM:<s@x.test>\r\nRCPT TO:<r@x.test>\r\nQUIT\r\n"
		nBefore = 4
	case "errors", "errors:FOO", "errors:ABCDE", "errors:", "errors:mixed":
		// four invalid commands of one kind: unknown verb, too short, mangled, empty line, or a mix
		bad := []string{"XXXX", "YYYY", "ZZZZ", "WWWW"}
		switch c.Reason {
		case "errors:FOO":
			bad = []string{"FOO", "BAR", "BAZ", "QUX"}
		case "errors:ABCDE":
			bad = []string{"ABCDE", "ABCDE", "ABCDE", "ABCDE"}
		case "errors:":
			bad = []string{"", "", "", ""}
		case "errors:mixed":
			bad = []string{"XXXX", "", "ABCDE", "FOO"}
		}
		script = c.Mode.hello() + "\r\nMAIL FROM:<s@x.test>\r\n" + strings.Join(bad, "\r\n") + "\r\n"
		nBefore = 7 // greeting, hello, MAIL, 4 error replies; the closing notice follows
	case "longline":
		script = c.Mode.hello() + "\r\nMAIL FROM:<s@x.test>\r\n"
		nBefore = 3
	case "panic":
		script = c.Mode.hello() + "\r\nMAIL FROM:<panic@x.test>\r\n"
		nBefore = 2
	case "panic:NewSession":
		script = strings.Fields(c.Mode.hello())[0] + " panic.test\r\n"
		nBefore = 1
	case "reject", "reject+session":
		script = strings.Fields(c.Mode.hello())[0] + " busy.test\r\n"
		nBefore = 1
	case "panic:Rcpt":
		script = c.Mode.hello() + "\r\nMAIL FROM:<s@x.test>\r\nRCPT TO:<panic@x.test>\r\n"
		nBefore = 3
	case "panic:Data":
		script = c.Mode.hello() + "\r\nMAIL FROM:<s@x.test>\r\nRCPT TO:<r@x.test>\r\nDATA\r\nPANIC now\r\n.\r\n"
		nBefore = 5
	case "panic:BdatLast":
		script = c.Mode.hello() + "\r\nMAIL FROM:<s@x.test>\r\nRCPT TO:<r@x.test>\r\nBDAT 11 LAST\r\nPANIC now\r\n"
		nBefore = 4
	case "panic:DataAtEOF":
		script = c.Mode.hello() + "\r\nMAIL FROM:<s@x.test>\r\nRCPT TO:<r@x.test>\r\nDATA\r\nPANIC now\r\n.\r\n"
		nBefore = 5
	case "panic:Reset":
		script = c.Mode.hello() + "\r\nMAIL FROM:<s@x.test>\r\nRSET\r\n"
		nBefore = 3
	case "timeout":
		script = c.Mode.hello() + "\r\nMAIL FROM:<s@x.test>\r\n"
		nBefore = 3
	}
	var replies []wire.Reply
	var rerr error
	switch c.Reason {
	case "longline":
		p.SendStr(script)
		rs, err := expect(p, nBefore)
		replies = append(replies, rs...)
		if err == nil {
			p.SendStr("NOOP " + strings.Repeat("x", 300) + "\r\n" + suffix)
		}
	case "timeout":
		p.SendStr(script)
		rs, err := expect(p, nBefore)
		replies = append(replies, rs...)
		if err == nil {
			if idle, werr := p.Raw.WaitPeerIdle(wire.Watchdog); werr != nil || !idle {
				ctx.Inconclusive("C08 timeout case: server did not go idle")
				rig.Finish()
				return
			}
			if !p.SrvEnd.FireReadDeadline() {
				p.Close()
				rig.Finish()
				ctx.Violate("C08:no-read-deadline", "ReadTimeout is set but the server waits for a command without a read deadline", c, witness(rig.Log, replies))
				return
			}
			r, err := p.ReadReply() // the 421 notice
			if err == nil {
				replies = append(replies, r)
			}
			p.SendStr(suffix)
		}
	default:
		p.SendStr(script + suffix)
	}
	p.Raw.CloseWrite()
	rs, rerr := p.ReadAll()
	replies = append(replies, rs...)
	p.Close()
	fin := rig.Finish()
	ends := waitDataEnds(rig.Log)
	if isWatchdog(rerr) || !fin || !ends {
		ctx.Inconclusive("C08 watchdog " + c08Desc(c))
		giveUp("c08srvend|" + c.Reason)
		return
	}
	ctx.Add("replies_parsed", int64(len(replies)))
	// the give-up instant: the s2c event carrying the final line of reply number nBefore (0-based)
	giveUp := 0
	k := 0
	for _, e := range rig.Log.Events() {
		if e.Kind == "s2c" && finalLine.MatchString(e.A) {
			if k == nBefore {
				giveUp = e.Seq
				break
			}
			k++
		}
	}
	if giveUp == 0 {
		ctx.Violate("C08:no-closing-reply:"+c.Reason, fmt.Sprintf("the server never sent the reply that ends the connection (got %s) [%s]", codes(replies), c08Desc(c)), c, witness(rig.Log, replies))
		return
	}
	if c08Lifecycle(ctx, c, rig.Log, replies, giveUp, c.Reason) {
		cls := "srvend/" + c.Reason
		if ctx.WantSample(cls) {
			ctx.Sample(cls, map[string]any{"reason": c.Reason, "suffix": c.Suffix, "read_timeout": c.ReadTimeout, "mode": c.Mode, "replies": codes(replies)})
		}
	}
}

// c08CloseOverlap: the connection's own Close (after QUIT / disconnect / error threshold /
// panic) is held inside Session.Logout while a second closer (Server.Close or Conn.Close from
// another goroutine) runs; the session must still be logged out exactly once.
func c08CloseOverlap(ctx *core.Ctx, c c08Case) {
	ctx.Eval(fmt.Sprintf("closeoverlap|%s|%s|%d|%s", c.Reason, c.Failure, c.Cut, c.Seg), true)
	rig := newRig(c.Mode, nil)
	gate := rec.NewGate()
	defer gate.OpenAll()
	rig.BE.H.Mail = func(sess int, from string, o *smtp.MailOptions) error {
		if strings.HasPrefix(from, "panic") {
			panic("scripted backend panic v#77")
		}
		return nil
	}
	park := c.Seg
	if park == "" {
		park = "Logout"
	}
	var parkOnce sync.Once
	parkAt := func(name string) {
		if name == park {
			parkOnce.Do(func() { gate.Wait("logout") })
		}
	}
	rig.BE.H.Logout = func(sess int) error { parkAt("Logout"); return nil }
	rig.BE.H.NewSession = func(*smtp.Conn, int) error { parkAt("NewSession"); return nil }
	inner := rig.BE.H.Mail
	rig.BE.H.Mail = func(sess int, from string, o *smtp.MailOptions) error {
		parkAt("Mail")
		return inner(sess, from, o)
	}
	rig.BE.H.Rcpt = func(int, string, *smtp.RcptOptions) error { parkAt("Rcpt"); return nil }
	rig.BE.H.Data = func(sess int, r *rec.Reader, st smtp.StatusCollector) error {
		parkAt("Data")
		r.ReadAll(32)
		return nil
	}
	p := rig.Dial()
	var conn *smtp.Conn
	if c.Reason == "pipelined" {
		p.SendStr(c.Mode.hello() + "\r\nMAIL FROM:<s@x.test>\r\nRCPT TO:<r@x.test>\r\nDATA\r\nbody\r\n.\r\nQUIT\r\n")
	} else {
		p.SendStr(c.Mode.hello() + "\r\n")
		if _, err := expect(p, 2); err != nil {
			gate.OpenAll()
			p.Close()
			rig.Finish()
			ctx.Inconclusive("C08 closeoverlap preamble")
			return
		}
	}
	if park != "NewSession" {
		// the *smtp.Conn is known once NewSession has been entered
		rig.Log.WaitFor(func(e rec.Event) bool { return e.Kind == "NewSession" && e.Ph == "e" }, nil)
	} else {
		rig.Log.WaitFor(func(e rec.Event) bool { return e.Kind == "NewSession" && e.Ph == "b" }, nil)
	}
	rig.BE.Lock()
	conn = rig.BE.Conns[1]
	rig.BE.Unlock()
	switch c.Reason {
	case "quit":
		p.SendStr("QUIT\r\n")
	case "disconnect":
		p.Close()
	case "errors":
		p.SendStr("XXXX\r\nXXXX\r\nXXXX\r\nXXXX\r\n")
	case "panic":
		p.SendStr("MAIL FROM:<panic@x.test>\r\n")
	}
	gate.WaitParked("logout") // the connection's own Close is now inside Logout
	done := make(chan struct{})
	go func() {
		defer close(done)
		if c.Failure == "Conn.Close" && conn != nil {
			conn.Close()
		} else {
			rig.Srv.Close()
		}
	}()
	// give the second closer a chance to reach the session (reach only; the verdict does not depend on it)
	for i := 0; i < 50+c.Cut*200; i++ {
		runtime.Gosched()
	}
	if c.Cut%2 == 1 {
		time.Sleep(time.Millisecond)
	}
	gate.OpenAll()
	select {
	case <-done:
	case <-time.After(wire.Watchdog):
		ctx.Inconclusive("C08 closeoverlap: second closer did not return")
		return
	}
	rs, _ := p.ReadAll()
	p.Close()
	rig.Finish()
	// handlers are not joined after Server.Close: wait until the handler's deferred Close is over
	deadline := time.Now().Add(wire.Watchdog)
	for {
		n := 0
		for _, e := range rig.Log.Events() {
			if e.Kind == "close" && e.A == "s2c" {
				n++
			}
		}
		if n > 0 || time.Now().After(deadline) {
			break
		}
		time.Sleep(200 * time.Microsecond)
	}
	for i := 0; i < 200; i++ {
		runtime.Gosched()
	}
	waitDataEnds(rig.Log)
	c20WaitLogouts(rig.Log)
	if c08Lifecycle(ctx, c, rig.Log, rs, 0, c.Reason) {
		if ctx.WantSample("closeoverlap/" + c.Reason) {
			ctx.Sample("closeoverlap/"+c.Reason, map[string]any{"reason": c.Reason, "second_closer": c.Failure, "logouts": len(eventsOf(rig.Log.Events(), "Logout", "b"))})
		}
	}
}
