package props

import (
	"encoding/base64"
	"encoding/json"
	"errors"
	"fmt"
	"strings"

	"github.com/emersion/go-sasl"
	smtp "github.com/emersion/go-smtp"

	"verifharness/core"
	"verifharness/rec"
	"verifharness/wire"
)

// C09 — AUTH is unreachable on insecure connections and succeeds at most once.

type c09Step struct {
	Kind  string `json:"kind"` // b64 | empty | bad | cancel | long | err (client-side mechanism error)
	Bytes []byte `json:"bytes"`
}

type c09Case struct {
	Kind        string `json:"kind"` // srv | cli | fake
	TLS         string `json:"tls"`  // plain | starttls | implicit
	Insecure    bool   `json:"insecure"`
	AuthBackend bool   `json:"auth_backend"`

	Challenges [][]byte  `json:"challenges"`
	Result     string    `json:"result"` // ok | fail
	IR         string    `json:"ir"`     // none | eq | b64 | bad
	IRBytes    []byte    `json:"ir_bytes"`
	Steps      []c09Step `json:"steps"`
	History    string    `json:"history"` // "" | pregreet | afterrset | afterehlo | plainauth-then-starttls

	Fake string `json:"fake"` // fake server misbehaviour: nonb64 | 5xx | early235
	At   int    `json:"at"`
}

func init() {
	register(&Prop{ID: "C09", Run: c09Run, Replay: func(ctx *core.Ctx, raw json.RawMessage) error {
		return core.ReplayCase(ctx, raw, c09Exec)
	}})
}

var c09Octets = [][]byte{[]byte("user\x00pass"), {0x00}, {0xff, 0xfe, 0x00, 0x80}, []byte("=+/ *"), []byte("a"), {}}

func c09Run(ctx *core.Ctx) {
	ctx.Rule = "server half: TLS state {plaintext, after STARTTLS, implicit TLS, STARTTLS accepted but the handshake failed (still plaintext)} x AllowInsecureAuth x backend {auth-capable, not} x scripted multi-step mechanism exchanges (0..3 challenges of arbitrary octets incl. empty; success/failure) x initial response {none, '=', base64 of arbitrary octets, bad base64} x per-step client behaviour {base64 of octets incl. NUL/0xFF, empty line, bad base64, '*', 1100-octet response} x surrounding history {before greeting, after failure, after success, after RSET, after re-EHLO, plaintext success then STARTTLS}; client half: smtp.Client.Auth with a recording scripted sasl.Client against the real server (1..3 steps, octet values, client-side error at each step) and against a scripted fake server {non-base64 334, 5xx at step k, early 235}. Oracle: equality of the mechanism transcripts recorded on both sides with the wire, 334/235/503 where the statement fixes them, zero mechanism events where AUTH must be unreachable. Non-trivial: every case; distinct by case."
	ctx.Assumptions = []string{"'=' as a non-initial response is not generated", "a sasl.Client returning a nil response to a challenge is not judged"}
	core.RunCases(ctx, func(emit func(c09Case)) {
		idx := 0
		for _, tls := range []string{"plain", "starttls", "implicit", "failedtls"} {
			for _, ins := range []bool{false, true} {
				for _, ab := range []bool{false, true} {
					for nch := 0; nch <= 3; nch++ {
						for _, res := range []string{"ok", "fail"} {
							for _, ir := range []string{"none", "eq", "b64", "bad", "badpad"} {
								// step-kind vectors: all good; one deviation at each position
								var vectors [][]string
								good := make([]string, nch)
								for i := range good {
									good[i] = "b64"
								}
								vectors = append(vectors, good)
								for pos := 0; pos < nch; pos++ {
									for _, dev := range []string{"empty", "bad", "badpad", "cancel", "long"} {
										v := append([]string{}, good...)
										v[pos] = dev
										vectors = append(vectors, v)
									}
								}
								draws := 1
								if ctx.Thorough() {
									draws = 40
								}
								for d := 0; d < draws; d++ {
									for _, v := range vectors {
										idx++
										r := core.NewRand(ctx.Seed, 91, uint64(idx))
										c := c09Case{Kind: "srv", TLS: tls, Insecure: ins, AuthBackend: ab, Result: res, IR: ir}
										for i := 0; i < nch; i++ {
											c.Challenges = append(c.Challenges, c09Octets[r.Intn(len(c09Octets))])
										}
										c.IRBytes = c09Octets[r.Intn(len(c09Octets)-1)]
										for _, k := range v {
											st := c09Step{Kind: k, Bytes: c09Octets[r.Intn(len(c09Octets)-1)]}
											if k == "long" {
												st.Bytes = []byte(strings.Repeat("L", 1100))
											}
											c.Steps = append(c.Steps, st)
										}
										for hi, hist := range []string{"", "pregreet", "afterrset", "afterehlo", "plainauth-then-starttls"} {
											if !ctx.Thorough() && hi != 0 && (idx+hi)%2 == 0 {
												continue
											}
											cc := c
											cc.History = hist
											emit(cc)
										}
									}
								}
							}
						}
					}
				}
			}
		}
		// client half against the real server
		for nch := 0; nch <= 3; nch++ {
			for _, res := range []string{"ok", "fail"} {
				for _, ir := range []string{"none", "eq", "b64"} {
					for errAt := -1; errAt < nch; errAt++ {
						for rep := 0; rep < 3; rep++ {
							idx++
							r := core.NewRand(ctx.Seed, 92, uint64(idx))
							c := c09Case{Kind: "cli", Result: res, IR: ir, At: errAt}
							for i := 0; i < nch; i++ {
								c.Challenges = append(c.Challenges, c09Octets[r.Intn(len(c09Octets))])
								c.Steps = append(c.Steps, c09Step{Kind: "b64", Bytes: c09Octets[r.Intn(len(c09Octets))]})
							}
							c.IRBytes = c09Octets[r.Intn(len(c09Octets)-1)]
							if rep == 2 {
								// long values: an initial response whose AUTH line exceeds 512 octets, long
								// later responses and challenges
								long := [][]byte{[]byte(strings.Repeat("Q", 400)), append([]byte{0, 255, 1}, []byte(strings.Repeat("\x00\xfe", 350))...)}
								c.IRBytes = long[nch%2]
								if nch > 0 {
									c.Steps[0].Bytes = long[(nch+1)%2]
									c.Challenges[nch-1] = long[nch%2]
								}
							}
							emit(c)
						}
					}
				}
			}
		}
		// client half against a misbehaving fake server
		for _, fk := range []string{"nonb64", "5xx", "early235"} {
			for at := 0; at <= 2; at++ {
				for _, ir := range []string{"none", "b64"} {
					emit(c09Case{Kind: "fake", Fake: fk, At: at, IR: ir, IRBytes: []byte("ir"),
						Steps: []c09Step{{Kind: "b64", Bytes: []byte("r0")}, {Kind: "b64", Bytes: []byte("r1")}, {Kind: "b64", Bytes: []byte{0, 255}}}})
					// zero-length responses to challenges (an empty line each, not "=")
					emit(c09Case{Kind: "fake", Fake: fk, At: at, IR: ir, IRBytes: []byte("ir"),
						Steps: []c09Step{{Kind: "empty", Bytes: []byte{}}, {Kind: "b64", Bytes: []byte("r1")}, {Kind: "empty", Bytes: []byte{}}}})
				}
			}
		}
	}, c09Exec)
}

// c09Mech is the scripted server mechanism.
type c09Mech struct {
	c *c09Case
	n int
}

func (m *c09Mech) Next(resp []byte) ([]byte, bool, error) {
	n := m.n
	m.n++
	if n < len(m.c.Challenges) {
		return m.c.Challenges[n], false, nil
	}
	if m.c.Result == "ok" {
		return nil, true, nil
	}
	return nil, false, &smtp.SMTPError{Code: 535, EnhancedCode: smtp.EnhancedCode{5, 7, 8}, Message: "v#auth-denied"}
}

func c09Exec(ctx *core.Ctx, c c09Case) {
	switch c.Kind {
	case "srv":
		c09Srv(ctx, c)
	case "cli":
		c09Cli(ctx, c)
	case "fake":
		c09Fake(ctx, c)
	}
}

func b64(b []byte) string { return base64.StdEncoding.EncodeToString(b) }

type saslCall struct {
	resp  string
	isNil bool
}

func c09MechEvents(ev []rec.Event, from int) (auths int, calls []saslCall) {
	for _, e := range ev {
		if e.Seq <= from {
			continue
		}
		if e.Kind == "Auth" && e.Ph == "b" {
			auths++
		}
		if e.Kind == "SaslNext" && e.Ph == "b" {
			calls = append(calls, saslCall{e.A, e.N == -1})
		}
	}
	return
}

func c09Srv(ctx *core.Ctx, c c09Case) {
	ctx.Eval(fmt.Sprintf("srv|%s|%v|%v|%q|%s|%s|%q|%v|%s", c.TLS, c.Insecure, c.AuthBackend, c.Challenges, c.Result, c.IR, c.IRBytes, c.Steps, c.History), true)
	kind := rec.Plain
	if c.AuthBackend {
		kind = rec.Auth
	}
	rig := wire.NewRig(kind, func(s *smtp.Server) {
		s.AllowInsecureAuth = c.Insecure
		if c.TLS != "plain" {
			s.TLSConfig = wire.ServerTLS()
		}
	})
	nAuthCalls := 0
	useScript := false
	rig.BE.H.AuthMechs = func(int) []string { return []string{"VERIF"} }
	rig.BE.H.Auth = func(sess int, mech string) (sasl.Server, error) {
		if mech != "VERIF" {
			return nil, smtp.ErrAuthUnknownMechanism
		}
		nAuthCalls++
		if useScript {
			return &c09Mech{c: &c}, nil
		}
		return &c09Mech{c: &c09Case{Result: "ok"}}, nil // other attempts: trivial script
	}
	var p *wire.Peer
	var all []wire.Reply
	if c.TLS == "implicit" {
		var err error
		p, err = rig.DialTLS()
		if err != nil {
			p.Close()
			rig.Finish()
			ctx.Inconclusive("C09 implicit TLS handshake: " + err.Error())
			return
		}
	} else {
		p = rig.Dial()
	}
	defer func() { p.Close(); rig.Finish() }()
	failed := false
	fail := func(sig, msg string) {
		failed = true
		ctx.Violate(sig, msg+fmt.Sprintf(" [tls=%s insecure=%v authBackend=%v challenges=%q result=%s ir=%s/%q steps=%v history=%s]", c.TLS, c.Insecure, c.AuthBackend, c.Challenges, c.Result, c.IR, c.IRBytes, c.Steps, c.History), c, witness(rig.Log, all))
	}
	cmd := func(line string) wire.Reply {
		p.SendStr(line + "\r\n")
		rs, _ := p.ReadUntilStall()
		all = append(all, rs...)
		ctx.Add("replies_parsed", int64(len(rs)))
		if len(rs) == 0 {
			return wire.Reply{}
		}
		return rs[len(rs)-1]
	}
	g, _ := p.ReadReply()
	all = append(all, g)
	tlsActive := c.TLS == "implicit"
	permitted := func() bool { return (tlsActive || c.Insecure) && c.AuthBackend }
	advertises := func(r wire.Reply) bool {
		for _, l := range r.Lines[1:] {
			if strings.HasPrefix(l, "AUTH") {
				return true
			}
		}
		return false
	}
	if c.History == "pregreet" {
		mark := rig.Log.Len()
		r := cmd("AUTH VERIF " + b64([]byte("x")))
		a, calls := c09MechEvents(rig.Log.Events(), mark)
		if r.Class() == 2 || r.Class() == 3 || a > 0 || len(calls) > 0 {
			fail("C09:auth-before-greeting", fmt.Sprintf("AUTH before a greeting answered %s (Auth calls %d, mechanism calls %d)", r, a, len(calls)))
			return
		}
	}
	e := cmd("EHLO c.test")
	if e.Code != 250 {
		fail("C09:ehlo", fmt.Sprintf("EHLO answered %s", e))
		return
	}
	if advertises(e) != permitted() {
		fail("C09:advertisement", fmt.Sprintf("AUTH advertised=%v but permitted=%v (tls active %v)", advertises(e), permitted(), tlsActive))
		return
	}
	plainSucceeded := false
	if c.History == "plainauth-then-starttls" && c.TLS == "starttls" && permitted() {
		// authenticate in plaintext first with a trivial exchange; STARTTLS must erase it
		r := cmd("AUTH VERIF " + b64([]byte("x")))
		if r.Code != 235 {
			fail("C09:plain-auth", fmt.Sprintf("plaintext AUTH with AllowInsecureAuth answered %s", r))
			return
		}
		plainSucceeded = true
	}
	if c.TLS == "starttls" {
		r := cmd("STARTTLS")
		if r.Code != 220 {
			fail("C09:starttls", fmt.Sprintf("STARTTLS answered %s", r))
			return
		}
		if err := p.StartTLSClient(); err != nil {
			ctx.Inconclusive("C09 STARTTLS handshake: " + err.Error())
			return
		}
		p.Raw.WaitPeerIdle(wire.Watchdog)
		tlsActive = true
		e = cmd("EHLO c.test")
		if advertises(e) != permitted() {
			fail("C09:advertisement", fmt.Sprintf("after STARTTLS: AUTH advertised=%v but permitted=%v", advertises(e), permitted()))
			return
		}
	}
	if c.TLS == "failedtls" {
		// STARTTLS is accepted but the peer never starts TLS: what it sends next is not a TLS
		// record, the handshake fails, and whatever remains of the connection is still plaintext
		r := cmd("STARTTLS")
		if r.Code != 220 {
			fail("C09:starttls", fmt.Sprintf("STARTTLS answered %s", r))
			return
		}
		p.SendStr("NOOP\r\n")
		if _, err := p.ReadUntilStall(); err != nil {
			ctx.Add("failed_handshake_connection_closed", 1)
			c09Sample(ctx, c, all)
			return // the server gave the connection up: nothing is reachable any more
		}
		ctx.Add("failed_handshake_connection_continues_in_plaintext", 1)
		e = cmd("EHLO c.test")
		if e.Code != 250 {
			if nr := cmd("EHLO c.test"); nr.Code != 250 {
				c09Sample(ctx, c, all)
				return
			} else {
				e = nr
			}
		}
		if advertises(e) != permitted() {
			fail("C09:advertisement-after-failed-handshake", fmt.Sprintf("after a failed STARTTLS handshake (connection still plaintext): AUTH advertised=%v but permitted=%v", advertises(e), permitted()))
			return
		}
	}
	_ = plainSucceeded
	// ---- the exchange under test
	useScript = true
	mark := rig.Log.Len()
	line := "AUTH VERIF"
	var expCalls []saslCall
	switch c.IR {
	case "eq":
		line += " ="
		expCalls = append(expCalls, saslCall{"", false})
	case "b64":
		if len(c.IRBytes) == 0 {
			line += " ="
		} else {
			line += " " + b64(c.IRBytes)
		}
		expCalls = append(expCalls, saslCall{string(c.IRBytes), false})
	case "bad":
		line += " !!notbase64!!"
	case "badpad":
		// base64 with wrong, missing or excess padding is malformed base64 (RFC 4648 section 4)
		line += " " + c09BadPad[len(c.Challenges)%len(c09BadPad)]
	default:
		expCalls = append(expCalls, saslCall{"", true})
	}
	r := cmd(line)
	if !permitted() {
		a, calls := c09MechEvents(rig.Log.Events(), mark)
		if r.Class() == 2 || r.Class() == 3 || a > 0 || len(calls) > 0 {
			fail("C09:auth-reachable-when-not-permitted", fmt.Sprintf("AUTH answered %s with Auth calls=%d mechanism calls=%d although it is not permitted here", r, a, len(calls)))
		}
		if nr := cmd("NOOP"); nr.Code != 250 && !failed {
			fail("C09:not-in-command-mode", fmt.Sprintf("NOOP after the refused AUTH answered %s", nr))
		}
		c09Sample(ctx, c, all)
		return
	}
	success := false
	over := false
	if c.IR == "bad" || c.IR == "badpad" {
		expCalls = nil
		over = true
		if r.Class() == 2 || r.Class() == 3 {
			fail("C09:bad-base64-accepted", fmt.Sprintf("initial response with invalid base64 answered %s", r))
			return
		}
	}
	for i := 0; !over; i++ {
		if i < len(c.Challenges) {
			// expect a 334 carrying challenge i
			if r.Code != 334 {
				fail("C09:challenge", fmt.Sprintf("expected 334 with challenge #%d, got %s", i, r))
				return
			}
			dec, err := base64.StdEncoding.DecodeString(r.Text())
			if err != nil || string(dec) != string(c.Challenges[i]) {
				fail("C09:challenge-octets", fmt.Sprintf("challenge #%d arrived as %q (decoded %q, err %v), the mechanism sent %q", i, r.Text(), dec, err, c.Challenges[i]))
				return
			}
			st := c.Steps[i]
			switch st.Kind {
			case "b64", "long":
				if len(st.Bytes) == 0 {
					r = cmd("")
				} else {
					r = cmd(b64(st.Bytes))
				}
				expCalls = append(expCalls, saslCall{string(st.Bytes), false})
			case "empty":
				r = cmd("")
				expCalls = append(expCalls, saslCall{"", false})
			case "bad":
				r = cmd("%%%bad")
				over = true
			case "badpad":
				r = cmd(c09BadPad[(i+len(st.Bytes))%len(c09BadPad)])
				over = true
			case "cancel":
				r = cmd("*")
				over = true
			}
			if over && (r.Class() == 2 || r.Class() == 3) {
				fail("C09:bad-step-accepted", fmt.Sprintf("step #%d (%s) answered %s", i, st.Kind, r))
				return
			}
			continue
		}
		// final result
		over = true
		if c.Result == "ok" {
			if r.Code != 235 {
				fail("C09:success-not-235", fmt.Sprintf("the mechanism succeeded but the reply is %s", r))
				return
			}
			success = true
		} else {
			if r.Class() == 2 || r.Class() == 3 {
				fail("C09:failure-accepted", fmt.Sprintf("the mechanism failed but the reply is %s", r))
				return
			}
			if !strings.Contains(r.Text(), "v#auth-denied") {
				fail("C09:failure-text", fmt.Sprintf("the mechanism's error is not reported: %s", r))
				return
			}
		}
	}
	a, calls := c09MechEvents(rig.Log.Events(), mark)
	ctx.Add("mechanism_calls_compared", int64(len(calls)))
	if c.IR != "bad" && c.IR != "badpad" && a != 1 {
		fail("C09:auth-calls", fmt.Sprintf("Auth() was called %d times for one exchange", a))
		return
	}
	if fmt.Sprint(calls) != fmt.Sprint(expCalls) {
		fail("C09:mechanism-octets", fmt.Sprintf("the mechanism received %q, the client sent %q (second field: nil response)", calls, expCalls))
		return
	}
	// command mode
	useScript = false
	if nr := cmd("NOOP"); nr.Code != 250 {
		fail("C09:not-in-command-mode", fmt.Sprintf("NOOP after the exchange answered %s", nr))
		return
	}
	switch c.History {
	case "afterrset":
		cmd("RSET")
	case "afterehlo":
		cmd("EHLO again.test")
	}
	// second attempt
	mark = rig.Log.Len()
	r2 := cmd("AUTH VERIF " + b64([]byte("x")))
	a2, calls2 := c09MechEvents(rig.Log.Events(), mark)
	if success {
		if r2.Code != 503 || a2 != 0 || len(calls2) != 0 {
			fail("C09:second-auth-after-success", fmt.Sprintf("AUTH after a successful AUTH answered %s (Auth calls %d, mechanism calls %d), expected 503 and no mechanism activity", r2, a2, len(calls2)))
			return
		}
	} else {
		if r2.Code == 503 || r2.Code != 235 {
			fail("C09:auth-after-failed-attempt", fmt.Sprintf("AUTH after a failed/cancelled/malformed exchange answered %s, expected a normal exchange (235)", r2))
			return
		}
	}
	c09Sample(ctx, c, all)
}

// c09BadPad: "\x00u\x00p" with one pad too few, none, one too many; only padding.
var c09BadPad = []string{"AHUAcA=", "AHUAcA", "AHUAcA===", "===="}

func c09Sample(ctx *core.Ctx, c c09Case, all []wire.Reply) {
	cls := fmt.Sprintf("%s/%s/ins=%v/ab=%v", c.Kind, c.TLS, c.Insecure, c.AuthBackend)
	if ctx.WantSample(cls) {
		ctx.Sample(cls, map[string]any{"tls": c.TLS, "insecure": c.Insecure, "auth_backend": c.AuthBackend, "challenges": fmt.Sprintf("%q", c.Challenges), "ir": c.IR, "steps": fmt.Sprint(c.Steps), "history": c.History, "replies": codes(all)})
	}
}

// ---- client half

type c09Client struct {
	c        *c09Case
	n        int
	gotChall []string
	sent     []saslCall
}

var errClientMech = errors.New("client mechanism error v#cli")

func (m *c09Client) Start() (string, []byte, error) {
	switch m.c.IR {
	case "eq":
		m.sent = append(m.sent, saslCall{"", false})
		return "VERIF", []byte{}, nil
	case "b64":
		m.sent = append(m.sent, saslCall{string(m.c.IRBytes), false})
		if len(m.c.IRBytes) == 0 {
			return "VERIF", []byte{}, nil
		}
		return "VERIF", m.c.IRBytes, nil
	}
	m.sent = append(m.sent, saslCall{"", true})
	return "VERIF", nil, nil
}

func (m *c09Client) Next(ch []byte) ([]byte, error) {
	m.gotChall = append(m.gotChall, string(ch))
	i := m.n
	m.n++
	if m.c.Kind == "cli" && i == m.c.At {
		return nil, errClientMech
	}
	if i >= len(m.c.Steps) {
		return []byte{}, nil
	}
	b := m.c.Steps[i].Bytes
	if b == nil {
		b = []byte{}
	}
	m.sent = append(m.sent, saslCall{string(b), false})
	return b, nil
}

func c09Cli(ctx *core.Ctx, c c09Case) {
	ctx.Eval(fmt.Sprintf("cli|%q|%s|%s|%q|%v|%d", c.Challenges, c.Result, c.IR, c.IRBytes, c.Steps, c.At), true)
	rig := wire.NewRig(rec.Auth, func(s *smtp.Server) { s.AllowInsecureAuth = true })
	rig.BE.H.AuthMechs = func(int) []string { return []string{"VERIF"} }
	rig.BE.H.Auth = func(sess int, mech string) (sasl.Server, error) { return &c09Mech{c: &c}, nil }
	p := rig.Dial()
	cl := smtp.NewClient(p.Raw)
	mech := &c09Client{c: &c}
	err := cl.Auth(mech)
	noopErr := cl.Noop()
	cl.Close()
	rig.Finish()
	_, calls := c09MechEvents(rig.Log.Events(), 0)
	ctx.Add("mechanism_calls_compared", int64(len(calls)))
	var c2s strings.Builder
	for _, e := range rig.Log.Events() {
		if e.Kind == "c2s" {
			c2s.WriteString(e.A)
		}
	}
	fail := func(sig, msg string) {
		ctx.Violate(sig, msg+fmt.Sprintf(" [challenges=%q result=%s ir=%s/%q steps=%v errAt=%d]", c.Challenges, c.Result, c.IR, c.IRBytes, c.Steps, c.At), c, rig.Log.Strings(80))
	}
	// octets crossing unaltered, both directions
	if fmt.Sprint(calls) != fmt.Sprint(mech.sent) {
		fail("C09:client-octets-altered", fmt.Sprintf("server mechanism received %q, client mechanism produced %q", calls, mech.sent))
		return
	}
	nch := len(mech.gotChall)
	for i := 0; i < nch; i++ {
		if i >= len(c.Challenges) || mech.gotChall[i] != string(c.Challenges[i]) {
			fail("C09:client-challenge-altered", fmt.Sprintf("client mechanism received challenges %q, server sent %q", mech.gotChall, c.Challenges))
			return
		}
	}
	clientErr := c.At >= 0 && c.At < len(c.Challenges)
	switch {
	case clientErr:
		if !errors.Is(err, errClientMech) {
			fail("C09:client-error-lost", fmt.Sprintf("the client mechanism failed at step %d but Auth returned %v", c.At, err))
			return
		}
		if !strings.Contains(c2s.String(), "\r\n*\r\n") {
			fail("C09:client-no-cancel", "the client mechanism failed but no '*' line was sent")
			return
		}
		if noopErr != nil {
			fail("C09:client-connection-unusable", fmt.Sprintf("after a cancelled exchange NOOP failed: %v", noopErr))
			return
		}
	case c.Result == "ok":
		if err != nil {
			fail("C09:client-result", fmt.Sprintf("the server accepted (235) but Auth returned %v", err))
			return
		}
		if nch != len(c.Challenges) {
			fail("C09:client-challenge-altered", fmt.Sprintf("client saw %d challenges, server sent %d", nch, len(c.Challenges)))
			return
		}
	default:
		var se *smtp.SMTPError
		if !errors.As(err, &se) || se.Code != 535 || !strings.Contains(se.Message, "v#auth-denied") {
			fail("C09:client-result", fmt.Sprintf("the server refused with 535 v#auth-denied but Auth returned %v", err))
			return
		}
		if noopErr != nil {
			fail("C09:client-connection-unusable", fmt.Sprintf("after a failed exchange NOOP failed: %v", noopErr))
			return
		}
	}
	if ctx.WantSample("cli/" + c.Result) {
		ctx.Sample("cli/"+c.Result, map[string]any{"challenges": fmt.Sprintf("%q", c.Challenges), "ir": c.IR, "client_sent": fmt.Sprintf("%q", mech.sent), "server_received": fmt.Sprintf("%q", calls), "auth_error": fmt.Sprint(err)})
	}
}

func c09Fake(ctx *core.Ctx, c c09Case) {
	ctx.Eval(fmt.Sprintf("fake|%s|%d|%s|%v", c.Fake, c.At, c.IR, c.Steps), true)
	f := wire.NewFake(func(f *wire.Fake) {
		f.Write("220 fake ESMTP\r\n")
		step := 0
		for {
			l, ok := f.ReadLine()
			if !ok {
				return
			}
			switch {
			case strings.HasPrefix(l, "EHLO"):
				f.Write("250-fake\r\n250 AUTH VERIF\r\n")
			case l == "NOOP":
				f.Write("250 2.0.0 ok\r\n")
			case l == "*":
				f.Write("501 5.0.0 cancelled\r\n")
				step = -1000
			case l == "QUIT":
				f.Write("221 2.0.0 bye\r\n")
				return
			default: // AUTH line or a response
				if step == c.At {
					switch c.Fake {
					case "nonb64":
						f.Write("334 this is !not! base64\r\n")
					case "5xx":
						f.Write("535 5.7.8 v#fake-denied\r\n")
					case "early235":
						f.Write("235 2.7.0 welcome\r\n")
					}
				} else if step > c.At && c.Fake != "nonb64" {
					f.Write("500 5.5.1 unexpected\r\n")
				} else {
					f.Write("334 " + b64([]byte(fmt.Sprintf("ch%d", step))) + "\r\n")
				}
				step++
			}
		}
	})
	cl := smtp.NewClient(f.Client)
	mech := &c09Client{c: &c}
	err := cl.Auth(mech)
	noopErr := cl.Noop()
	cl.Close()
	f.Close()
	f.Wait()
	lines := f.Received()
	ctx.Add("wire_lines_checked", int64(len(lines)))
	fail := func(sig, msg string) {
		ctx.Violate(sig, msg+fmt.Sprintf(" [fake=%s at=%d ir=%s]", c.Fake, c.At, c.IR), c, append(f.Log.Strings(60), fmt.Sprintf("lines received by the fake server: %q", lines)))
	}
	// what the client wrote in answer to the challenges is, line by line, the base64 form of what
	// its mechanism returned: an empty response is an empty line (only an INITIAL empty response is
	// spelled "=")
	var respLines, wantLines []string
	seenAuth := false
	for _, l := range lines {
		switch {
		case strings.HasPrefix(l, "AUTH "):
			seenAuth = true
		case !seenAuth, l == "*", l == "NOOP", l == "QUIT", strings.HasPrefix(l, "EHLO"):
		default:
			respLines = append(respLines, l)
		}
	}
	for k := 1; k < len(mech.sent); k++ {
		w := ""
		if len(mech.sent[k].resp) > 0 {
			w = b64([]byte(mech.sent[k].resp))
		}
		wantLines = append(wantLines, w)
	}
	if fmt.Sprintf("%q", respLines) != fmt.Sprintf("%q", wantLines) {
		fail("C09:client-octets-altered", fmt.Sprintf("the client answered the challenges with the lines %q; its mechanism's responses in base64 are %q", respLines, wantLines))
		return
	}
	switch c.Fake {
	case "nonb64":
		if err == nil {
			fail("C09:client-accepted-garbage-challenge", "a 334 whose text is not base64 did not make Auth fail")
			return
		}
		sawStar := false
		for _, l := range lines {
			if l == "*" {
				sawStar = true
			}
		}
		if !sawStar {
			fail("C09:client-no-cancel", "a malformed challenge was not answered with '*'")
			return
		}
		if noopErr != nil {
			fail("C09:client-connection-unusable", fmt.Sprintf("NOOP after the cancelled exchange failed: %v", noopErr))
			return
		}
	case "5xx":
		var se *smtp.SMTPError
		if !errors.As(err, &se) || se.Code != 535 || !strings.Contains(se.Message, "v#fake-denied") {
			fail("C09:client-result", fmt.Sprintf("server said 535 v#fake-denied, Auth returned %v", err))
			return
		}
	case "early235":
		if err != nil {
			fail("C09:client-result", fmt.Sprintf("server said 235, Auth returned %v", err))
			return
		}
	}
	if ctx.WantSample("fake/" + c.Fake) {
		ctx.Sample("fake/"+c.Fake, map[string]any{"fake": c.Fake, "at": c.At, "lines": lines, "auth_error": fmt.Sprint(err)})
	}
}
