// Package props holds one check per property C01..C20.
package props

import (
	"encoding/json"
	"errors"
	"fmt"
	"io"
	"sort"
	"strings"
	"sync"
	"time"

	smtp "github.com/emersion/go-smtp"

	"verifharness/core"
	"verifharness/memconn"
	"verifharness/rec"
	"verifharness/wire"
)

// Part is one child-process invocation of a property's workload.
type Part struct {
	Name       string
	Race       bool // run under the race-detector build
	GOMAXPROCS int  // 0 = default
}

// Prop describes one property check.
type Prop struct {
	ID string
	// Parts lists the child runs for a tier.
	Parts func(tier string) []Part
	// Run generates and executes the workload of one part.
	Run func(ctx *core.Ctx)
	// Replay executes one recorded case.
	Replay func(ctx *core.Ctx, raw json.RawMessage) error
	// Level is the evidence level claimed ("exploration" or "fault_enumeration").
	Level string
}

var registry = map[string]*Prop{}

func register(p *Prop) {
	if p.Parts == nil {
		p.Parts = func(string) []Part { return []Part{{Name: "main"}} }
	}
	if p.Level == "" {
		p.Level = "exploration"
	}
	registry[p.ID] = p
}

func Get(id string) *Prop { return registry[id] }

func IDs() []string {
	var out []string
	for k := range registry {
		out = append(out, k)
	}
	sort.Strings(out)
	return out
}

// ---------------------------------------------------------------------------------------------
// Helpers shared by the server-side checks.

type srvMode string

const (
	modeSMTP     srvMode = "smtp"
	modeLMTP     srvMode = "lmtp"      // LMTP server, backend without per-recipient support
	modeLMTPRcpt srvMode = "lmtp-rcpt" // LMTP server, backend implements LMTPSession
)

func (m srvMode) kind() rec.SessKind {
	if m == modeLMTPRcpt {
		return rec.LMTP
	}
	return rec.Plain
}

func (m srvMode) lmtp() bool { return m != modeSMTP }

func (m srvMode) hello() string {
	if m.lmtp() {
		return "LHLO cli.test"
	}
	return "EHLO cli.test"
}

// newRig builds a rig for the mode.
func newRig(m srvMode, conf func(s *smtp.Server)) *wire.Rig {
	return wire.NewRig(m.kind(), func(s *smtp.Server) {
		s.LMTP = m.lmtp()
		if conf != nil {
			conf(s)
		}
	})
}

// expect reads n replies; it returns them and an error text if fewer arrived.
func expect(p *wire.Peer, n int) ([]wire.Reply, error) {
	var out []wire.Reply
	for i := 0; i < n; i++ {
		r, err := p.ReadReply()
		if err != nil {
			return out, err
		}
		out = append(out, r)
	}
	return out, nil
}

func isWatchdog(err error) bool { return errors.Is(err, memconn.ErrWatchdog) }
func isStalled(err error) bool  { return errors.Is(err, memconn.ErrStalled) }
func isEOF(err error) bool      { return errors.Is(err, io.EOF) }

func codes(rs []wire.Reply) string {
	var s []string
	for _, r := range rs {
		s = append(s, fmt.Sprint(r.Code))
	}
	return strings.Join(s, ",")
}

func replyStrings(rs []wire.Reply) []string {
	var s []string
	for _, r := range rs {
		s = append(s, r.String())
	}
	return s
}

// witness renders the event log plus the replies for a violation report.
func witness(l *rec.Log, rs []wire.Reply) []string {
	out := l.Strings(100)
	out = append(out, "--- replies parsed by the driver ---")
	out = append(out, replyStrings(rs)...)
	return out
}

// events returns the events of the given kind and phase.
func eventsOf(ev []rec.Event, kind, ph string) []rec.Event {
	var out []rec.Event
	for _, e := range ev {
		if e.Kind == kind && e.Ph == ph {
			out = append(out, e)
		}
	}
	return out
}

func dataEnds(ev []rec.Event) []rec.Event {
	var out []rec.Event
	for _, e := range ev {
		if (e.Kind == "Data" || e.Kind == "LMTPData") && e.Ph == "e" {
			out = append(out, e)
		}
	}
	return out
}

func countBackendEvents(ev []rec.Event) int64 {
	var n int64
	for _, e := range ev {
		switch e.Kind {
		case "c2s", "s2c", "close", "act", "log":
		default:
			n++
		}
	}
	return n
}

func hexq(b []byte) string { return fmt.Sprintf("%q", string(b)) }

// logPanic returns the first server error-log line that reports a recovered panic ("" when none).
func logPanic(evs []rec.Event) string {
	for _, e := range evs {
		if e.Kind == "log" && strings.Contains(strings.ToLower(e.A), "panic") {
			return strings.TrimSpace(e.A)
		}
	}
	return ""
}

// Once a class of cases has run into the wall-clock watchdog (which only happens on a tree that
// hangs there), its remaining cases are skipped: each would cost another watchdog period and the
// run's verdict for the class is already established (violation or inconclusive, never "held").
var givenUp sync.Map

func giveUp(class string)      { givenUp.Store(class, true) }
func gaveUp(class string) bool { _, ok := givenUp.Load(class); return ok }

// serverKnobs switches on, as a deterministic function of the case key, server settings that
// must not change the behaviour under test: a Debug writer (the traffic is then read through a
// tee) in one case out of five, a (virtual, never expiring) WriteTimeout in one out of seven.
// What was set is noted in the event log so that a witness shows it.
func serverKnobs(rig *wire.Rig, key string) {
	h := core.HashStr(key)
	var set []string
	if h%5 == 0 {
		rig.Srv.Debug = io.Discard
		set = append(set, "Debug")
	}
	if (h/5)%7 == 0 {
		rig.Srv.WriteTimeout = time.Hour
		set = append(set, "WriteTimeout")
	}
	if len(set) > 0 {
		rig.Log.Act("server knobs: " + strings.Join(set, ", "))
	}
}
