package props

import (
	"bytes"
	"errors"
	"fmt"
	"strings"

	"github.com/emersion/go-sasl"
	smtp "github.com/emersion/go-smtp"

	"verifharness/core"
	"verifharness/rec"
	"verifharness/wire"
)

// Abstract command histories shared by C03 (transaction order) and C04 (reply accounting).

var histAlphabet = []string{
	"HELO", "EHLO", "LHLO", "HELLO_NOARG", "HELLO_REJ",
	"MAIL", "MAIL_NULL", "MAIL_REJ", "MAIL_BAD", "MAIL_PARAM",
	"RCPT", "RCPT_REJ", "RCPT_BAD",
	"DATA", "DATA_REJ", "DATA_ARG",
	"BDAT", "BDAT_LAST", "BDAT0", "BDAT0_LAST", "BDAT_LAST_REJ", "BDAT_FAIL", "BDAT_FAIL_LAST", "BDAT_BADSIZE", "BDAT_NOARG",
	"RSET", "NOOP", "VRFY",
	"AUTH_OK", "AUTH_FAIL", "AUTH_CANCEL", "AUTH_2STEP",
	"STARTTLS", "QUIT", "UNKNOWN", "HELP", "EMPTY", "SHORT",
	"DATA_BIG", "BDAT_BIG", "BDAT_BIG_LAST",
	"MAIL_BIN", "MAIL_BIN_REJ", "MAIL_BIN_PARAM",
}

// histBig is the payload size of the *_BIG commands; histLimit the size limit used by the
// configurations that have one (ordinary payloads of a whole history stay far below it).
const histBig, histLimit = 1500, 1000

type hcase struct {
	Mode     srvMode  `json:"mode"`
	MaxRcpt  int      `json:"max_rcpt"`
	MaxBytes int64    `json:"max_bytes"` // MaxMessageBytes (0 = none); the *_BIG commands exceed it
	Hist     []string `json:"hist"`
	Disc     string   `json:"disc"` // lock | pipe | recut
	CutSeed  uint64   `json:"cut_seed"`
}

func (h hcase) key() string {
	return fmt.Sprintf("%s|%d|%d|%s|%s|%d", h.Mode, h.MaxRcpt, h.MaxBytes, strings.Join(h.Hist, ","), h.Disc, h.CutSeed)
}

type rcmd struct {
	Abs        string
	Kind       string // hello mail rcpt data bdat rset noop vrfy auth starttls quit bad
	Send       []byte
	Arg        string
	Body       []byte // data: stuffed stream with terminator
	Last       bool
	WellFormed bool   // bdat: parsable size, at most LAST
	Flavour    bool   // hello: right flavour for the server and has an argument
	AuthResp   string // line to send after a 334 ("" = none expected)
	Token      string // token expected in the negative reply when the backend rejects
	Reject     bool   // the backend script rejects this command / message
	Big        bool   // the payload exceeds histLimit
	Binary     bool   // mail: BODY=BINARYMIME
	Sync       bool
}

func hRender(i int, abs string, mode srvMode) rcmd {
	c := rcmd{Abs: abs}
	line := func(s string) []byte { return []byte(s + "\r\n") }
	hello := "EHLO"
	if mode.lmtp() {
		hello = "LHLO"
	}
	switch abs {
	case "HELO", "EHLO", "LHLO":
		c.Kind, c.Arg = "hello", fmt.Sprintf("c%d.test", i)
		c.Send = line(abs + " " + c.Arg)
		c.Flavour = (abs == "LHLO") == mode.lmtp()
		c.Sync = true
	case "HELLO_NOARG":
		c.Kind = "hello"
		c.Send = line(hello)
		c.Sync = true
	case "HELLO_REJ":
		c.Kind, c.Arg = "hello", fmt.Sprintf("rejc%d.test", i)
		c.Send = line(hello + " " + c.Arg)
		c.Flavour, c.Reject, c.Token = true, true, "v#"+c.Arg
		c.Sync = true
	case "MAIL":
		c.Kind, c.Arg = "mail", fmt.Sprintf("s%d@x.test", i)
		c.Send = line("MAIL FROM:<" + c.Arg + ">")
	case "MAIL_NULL":
		c.Kind, c.Arg = "mail", ""
		c.Send = line("MAIL FROM:<>")
	case "MAIL_REJ":
		c.Kind, c.Arg = "mail", fmt.Sprintf("rejs%d@x.test", i)
		c.Send = line("MAIL FROM:<" + c.Arg + ">")
		c.Reject, c.Token = true, "v#"+c.Arg
	case "MAIL_BIN":
		c.Kind, c.Arg, c.Binary = "mail", fmt.Sprintf("s%d@x.test", i), true
		c.Send = line("MAIL FROM:<" + c.Arg + "> BODY=BINARYMIME")
	case "MAIL_BIN_REJ":
		c.Kind, c.Arg, c.Binary = "mail", fmt.Sprintf("rejs%d@x.test", i), true
		c.Send = line("MAIL FROM:<" + c.Arg + "> BODY=BINARYMIME")
		c.Reject, c.Token = true, "v#"+c.Arg
	case "MAIL_BIN_PARAM":
		c.Kind = "bad"
		c.Send = line(fmt.Sprintf("MAIL FROM:<p%d@x.test> BODY=BINARYMIME FOO=1", i))
	case "MAIL_BAD":
		c.Kind = "bad"
		c.Send = line(fmt.Sprintf("MAIL FROM:<bad%d", i))
	case "MAIL_PARAM":
		c.Kind = "bad"
		c.Send = line(fmt.Sprintf("MAIL FROM:<p%d@x.test> FOO=1", i))
	case "RCPT":
		c.Kind, c.Arg = "rcpt", fmt.Sprintf("r%d@x.test", i)
		c.Send = line("RCPT TO:<" + c.Arg + ">")
	case "RCPT_REJ":
		c.Kind, c.Arg = "rcpt", fmt.Sprintf("rejr%d@x.test", i)
		c.Send = line("RCPT TO:<" + c.Arg + ">")
		c.Reject, c.Token = true, "v#"+c.Arg
	case "RCPT_BAD":
		c.Kind = "bad"
		c.Send = line(fmt.Sprintf("RCPT TO:<bad%d", i))
	case "DATA", "DATA_REJ":
		c.Kind = "data"
		c.Send = line("DATA")
		body := fmt.Sprintf("ID:%d\r\nline\r\n", i)
		if abs == "DATA_REJ" {
			body = fmt.Sprintf("ID:%d\r\nREJECT\r\n", i)
			c.Reject, c.Token = true, fmt.Sprintf("v#m%d", i)
		}
		c.Body = []byte(body + ".\r\n")
		c.Sync = true
	case "DATA_BIG":
		c.Kind = "data"
		c.Send = line("DATA")
		body := fmt.Sprintf("ID:%d\r\n", i)
		for len(body) < histBig {
			body += "filler line of the big message\r\n"
		}
		c.Body = []byte(body + ".\r\n")
		c.Big = true
		c.Sync = true
	case "BDAT_BIG", "BDAT_BIG_LAST":
		c.Kind = "bdat"
		pay := fmt.Sprintf("ID:%d\r\n", i)
		for len(pay) < histBig {
			pay += "filler line of the big chunk\r\n"
		}
		c.Last = abs == "BDAT_BIG_LAST"
		cmd := fmt.Sprintf("BDAT %d", len(pay))
		if c.Last {
			cmd += " LAST"
		}
		c.Send = append(line(cmd), pay...)
		c.Body = []byte(pay)
		c.WellFormed = true
		c.Big = true
		c.Sync = c.Last
	case "DATA_ARG":
		c.Kind = "bad"
		c.Send = line("DATA now")
	case "BDAT", "BDAT_LAST", "BDAT_LAST_REJ", "BDAT_FAIL", "BDAT_FAIL_LAST":
		c.Kind = "bdat"
		pay := fmt.Sprintf("ID:%d\r\nchunk-data\r\n", i)
		switch abs {
		case "BDAT_LAST_REJ":
			pay = fmt.Sprintf("ID:%d\r\nREJECT\r\n", i)
			c.Reject, c.Token = true, fmt.Sprintf("v#m%d", i)
		case "BDAT_FAIL", "BDAT_FAIL_LAST":
			pay = fmt.Sprintf("FAILEARLY ID:%d\r\nmore data here\r\n", i)
			c.Reject, c.Token = true, fmt.Sprintf("v#m%d", i)
		}
		c.Last = abs == "BDAT_LAST" || abs == "BDAT_LAST_REJ" || abs == "BDAT_FAIL_LAST"
		cmd := fmt.Sprintf("BDAT %d", len(pay))
		if c.Last {
			cmd += " LAST"
		}
		c.Send = append(line(cmd), pay...)
		c.Body = []byte(pay)
		c.WellFormed = true
		c.Sync = c.Last
	case "BDAT0", "BDAT0_LAST":
		c.Kind = "bdat"
		c.Last = abs == "BDAT0_LAST"
		cmd := "BDAT 0"
		if c.Last {
			cmd += " LAST"
		}
		c.Send = line(cmd)
		c.WellFormed = true
		c.Sync = c.Last
	case "BDAT_BADSIZE":
		c.Kind = "bad"
		c.Send = line("BDAT x7")
	case "BDAT_NOARG":
		c.Kind = "bad"
		c.Send = line("BDAT")
	case "RSET":
		c.Kind = "rset"
		c.Send = line("RSET")
	case "NOOP":
		c.Kind = "noop"
		c.Send = line("NOOP")
	case "VRFY":
		c.Kind = "noop"
		c.Send = line("VRFY someone")
	case "AUTH_OK":
		c.Kind = "auth"
		c.Send = line("AUTH VERIF b2s=") // "ok"
		c.Sync = true
	case "AUTH_FAIL":
		c.Kind = "auth"
		c.Send = line("AUTH VERIF ZmFpbA==") // "fail"
		c.Sync = true
	case "AUTH_CANCEL":
		c.Kind = "auth"
		c.Send = line("AUTH VERIF")
		c.AuthResp = "*"
		c.Sync = true
	case "AUTH_2STEP":
		c.Kind = "auth"
		c.Send = line("AUTH VERIF")
		c.AuthResp = "b2s="
		c.Sync = true
	case "STARTTLS":
		c.Kind = "starttls"
		c.Send = line("STARTTLS")
		c.Sync = true
	case "QUIT":
		c.Kind = "quit"
		c.Send = line("QUIT")
		c.Sync = true
	case "UNKNOWN":
		c.Kind = "bad"
		c.Send = line("XXXX arg")
	case "HELP":
		c.Kind = "bad"
		c.Send = line("HELP")
	case "EMPTY":
		c.Kind = "bad"
		c.Send = line("")
	case "SHORT":
		c.Kind = "bad"
		c.Send = line("ABCDE")
	default:
		panic("unknown abstract command " + abs)
	}
	return c
}

// verifMech is the scripted SASL mechanism "VERIF": response "ok" succeeds, "fail" fails,
// no/empty response gets an empty challenge first.
type verifMech struct{ step int }

func (m *verifMech) Next(resp []byte) ([]byte, bool, error) {
	m.step++
	if resp == nil || (len(resp) == 0 && m.step == 1) {
		return []byte("give"), false, nil
	}
	if string(resp) == "ok" {
		return nil, true, nil
	}
	return nil, false, &smtp.SMTPError{Code: 535, EnhancedCode: smtp.EnhancedCode{5, 7, 8}, Message: "v#auth failed"}
}

func histHooks(rig *wire.Rig) {
	// Rejections come in three shapes, chosen by the digits of the unique argument: SMTPError
	// with an enhanced code, SMTPError without one (the server must derive X.0.0 from the reply
	// code's class), and a plain error (generic code, text preserved).
	tok := func(code int, ec smtp.EnhancedCode, t string) error {
		n := 0
		for _, ch := range t {
			if ch >= '0' && ch <= '9' {
				n = n*10 + int(ch-'0')
			}
		}
		switch n % 3 {
		case 1:
			return &smtp.SMTPError{Code: code, Message: t + " refused 100%"}
		case 2:
			return errors.New(t + " refused (plain error) %s")
		}
		return &smtp.SMTPError{Code: code, EnhancedCode: ec, Message: t + " refused %d"}
	}
	rig.BE.H.NewSession = func(c *smtp.Conn, sess int) error {
		if strings.HasPrefix(c.Hostname(), "rej") {
			return tok(450, smtp.EnhancedCode{4, 7, 1}, "v#"+c.Hostname())
		}
		return nil
	}
	rig.BE.H.Mail = func(sess int, from string, o *smtp.MailOptions) error {
		if strings.HasPrefix(from, "rej") {
			return tok(550, smtp.EnhancedCode{5, 7, 1}, "v#"+from)
		}
		return nil
	}
	rig.BE.H.Rcpt = func(sess int, to string, o *smtp.RcptOptions) error {
		if strings.HasPrefix(to, "rej") {
			return tok(550, smtp.EnhancedCode{5, 1, 1}, "v#"+to)
		}
		return nil
	}
	rig.BE.H.Data = func(sess int, r *rec.Reader, st smtp.StatusCollector) error {
		r.ReadN(9, 9)
		id := func() string {
			s := string(r.Got)
			if i := strings.Index(s, "ID:"); i >= 0 {
				s = s[i+3:]
				j := 0
				for j < len(s) && s[j] >= '0' && s[j] <= '9' {
					j++
				}
				return s[:j]
			}
			return "?"
		}
		// the reply code of a rejected message varies with its id (permanent / transient), so
		// that a default enhanced code of the wrong class shows
		rejectMsg := func() error {
			m := id()
			if len(m) > 0 && (m[len(m)-1]-'0')%2 == 1 {
				return tok(451, smtp.EnhancedCode{4, 6, 0}, "v#m"+m)
			}
			return tok(554, smtp.EnhancedCode{5, 6, 0}, "v#m"+m)
		}
		if string(r.Got) == "FAILEARLY" {
			r.ReadN(16, 7)
			return rejectMsg()
		}
		err := r.ReadAll(256)
		if err != nil && err.Error() != "EOF" {
			return err
		}
		if bytes.Contains(r.Got, []byte("REJECT")) {
			return rejectMsg()
		}
		return nil
	}
	rig.BE.H.AuthMechs = func(int) []string { return []string{"VERIF"} }
	rig.BE.H.Auth = func(sess int, mech string) (sasl.Server, error) {
		if mech != "VERIF" {
			return nil, smtp.ErrAuthUnknownMechanism
		}
		return &verifMech{}, nil
	}
}

// cmdObs is what was observed for one command in lock-step.
type cmdObs struct {
	C       rcmd
	SentSeq int
	Replies []wire.Reply // all replies attributed to the command (incl. intermediates and closing notice)
	Body    bool         // the DATA body was sent
	Closed  bool         // the server closed the connection after this command
	TLSUp   bool         // STARTTLS handshake completed
}

type histRun struct {
	Case    hcase
	Obs     []cmdObs
	Greet   wire.Reply
	All     []wire.Reply // every reply in order, greeting included
	Ev      []rec.Event
	Log     *rec.Log
	EndSeq  int
	Inconcl string
	Broken  string
}

func histRig(h hcase) *wire.Rig {
	kind := rec.Auth
	if h.Mode == modeLMTPRcpt {
		kind = rec.AuthLMTP
	}
	rig := wire.NewRig(kind, func(s *smtp.Server) {
		s.LMTP = h.Mode.lmtp()
		s.MaxRecipients = h.MaxRcpt
		s.MaxMessageBytes = h.MaxBytes
		s.AllowInsecureAuth = true
		s.EnableBINARYMIME = true
		s.TLSConfig = wire.ServerTLS()
	})
	histHooks(rig)
	return rig
}

// histExecLock runs the history in lock-step: each command is sent after the server went idle.
func histExecLock(h hcase) *histRun {
	run := &histRun{Case: h}
	rig := histRig(h)
	run.Log = rig.Log
	p := rig.Dial()
	g, err := p.ReadReply()
	if err != nil {
		p.Close()
		rig.Finish()
		run.Inconcl = fmt.Sprintf("no greeting: %v", err)
		return run
	}
	run.Greet = g
	run.All = append(run.All, g)
	closed := false
	for i, abs := range h.Hist {
		if closed {
			break
		}
		c := hRender(i, abs, h.Mode)
		o := cmdObs{C: c}
		o.SentSeq = rig.Log.Act(fmt.Sprintf("send #%d %s", i, abs))
		p.Send(c.Send)
		rs, err := p.ReadUntilStall()
		o.Replies = append(o.Replies, rs...)
		if err != nil {
			if isWatchdog(err) {
				run.Inconcl = "watchdog after " + abs
			}
			closed = true
		}
		if !closed && c.Kind == "data" && len(rs) == 1 && rs[0].Code == 354 {
			o.Body = true
			p.Send(c.Body)
			rs, err = p.ReadUntilStall()
			o.Replies = append(o.Replies, rs...)
			if err != nil {
				closed = true
			}
		}
		if !closed && c.Kind == "auth" && c.AuthResp != "" && len(rs) == 1 && rs[0].Code == 334 {
			p.SendStr(c.AuthResp + "\r\n")
			rs, err = p.ReadUntilStall()
			o.Replies = append(o.Replies, rs...)
			if err != nil {
				closed = true
			}
		}
		if !closed && c.Kind == "starttls" && len(rs) == 1 && rs[0].Code == 220 {
			if err := p.StartTLSClient(); err != nil {
				run.Inconcl = "TLS handshake failed: " + err.Error()
				closed = true
			} else {
				o.TLSUp = true
				p.Raw.WaitPeerIdle(wire.Watchdog) // the server finishes its side (Logout of the plaintext session) before it waits for input
			}
		}
		o.Closed = closed
		run.All = append(run.All, o.Replies...)
		run.Obs = append(run.Obs, o)
	}
	run.EndSeq = rig.Log.Act("end of history")
	p.Close()
	if !rig.Finish() || !waitDataEnds(rig.Log) {
		run.Inconcl = "watchdog at the end of the case"
	}
	run.Ev = rig.Log.Events()
	return run
}

// histExecBurst runs the history in RFC 2920 pipelined groups (optionally re-cut at seeded offsets).
func histExecBurst(h hcase) *histRun {
	run := &histRun{Case: h}
	rig := histRig(h)
	run.Log = rig.Log
	p := rig.Dial()
	g, err := p.ReadReply()
	if err != nil {
		p.Close()
		rig.Finish()
		run.Inconcl = fmt.Sprintf("no greeting: %v", err)
		return run
	}
	run.Greet = g
	run.All = append(run.All, g)
	rnd := core.NewRand(h.CutSeed, 77)
	send := func(b []byte) {
		if h.Disc != "recut" || len(b) < 2 {
			p.Send(b)
			return
		}
		var cuts []int
		for i := 1; i < len(b); i++ {
			if rnd.Chance(1, 7) {
				cuts = append(cuts, i)
			}
		}
		p.SendSegs(core.Split(b, cuts))
	}
	closed := false
	var burst []byte
	flush := func() []wire.Reply {
		if len(burst) > 0 {
			send(burst)
			burst = nil
		}
		rs, err := p.ReadUntilStall()
		run.All = append(run.All, rs...)
		if err != nil {
			if isWatchdog(err) {
				run.Inconcl = "watchdog"
			}
			closed = true
		}
		return rs
	}
	for i, abs := range h.Hist {
		if closed {
			break
		}
		c := hRender(i, abs, h.Mode)
		burst = append(burst, c.Send...)
		if !c.Sync {
			continue
		}
		rs := flush()
		if closed || len(rs) == 0 {
			continue
		}
		last := rs[len(rs)-1]
		switch {
		case c.Kind == "data" && last.Code == 354:
			burst = append(burst, c.Body...)
			flush()
		case c.Kind == "auth" && c.AuthResp != "" && last.Code == 334:
			burst = append(burst, c.AuthResp+"\r\n"...)
			flush()
		case c.Kind == "starttls" && last.Code == 220:
			if err := p.StartTLSClient(); err != nil {
				run.Inconcl = "TLS handshake failed: " + err.Error()
				closed = true
			} else {
				p.Raw.WaitPeerIdle(wire.Watchdog)
			}
		}
	}
	if !closed {
		flush()
	}
	run.EndSeq = rig.Log.Act("end of history")
	p.Close()
	if !rig.Finish() || !waitDataEnds(rig.Log) {
		run.Inconcl = "watchdog at the end of the case"
	}
	run.Ev = rig.Log.Events()
	return run
}

// ---------------------------------------------------------------------------------------------
// The transaction monitor automaton (reference for C03; also yields reply arities for C04).

type hviol struct {
	Sig, Msg string
}

type txnState struct {
	greeted  bool
	session  bool
	mailOK   bool
	rcpts    int
	chunk    bool
	tainted  bool
	tls      bool
	authed   bool
	nErrors  int
	lastHelo string
	bigSeen  bool // a *_BIG chunk was accepted into the open transfer
	binary   bool // the open transaction was declared BODY=BINARYMIME (DATA may be refused: RFC 3030)
}

func all5xx(rs []wire.Reply) bool {
	if len(rs) == 0 {
		return false
	}
	for _, r := range rs {
		if r.Class() != 5 {
			return false
		}
	}
	return true
}

func all2xx(rs []wire.Reply) bool {
	if len(rs) == 0 {
		return false
	}
	for _, r := range rs {
		if r.Class() != 2 {
			return false
		}
	}
	return true
}

// histMonitor replays a lock-step run through the automaton and reports C03:* and C04:* violations.
func histMonitor(run *histRun) []hviol {
	var out []hviol
	add := func(sig, f string, a ...any) { out = append(out, hviol{sig, fmt.Sprintf(f, a...)}) }
	h := run.Case
	st := txnState{}
	ev := run.Ev
	// events strictly between two sequence numbers
	between := func(lo, hi int) []rec.Event {
		var r []rec.Event
		for _, e := range ev {
			if e.Seq > lo && e.Seq < hi {
				r = append(r, e)
			}
		}
		return r
	}
	cbBegins := func(es []rec.Event, kinds ...string) []rec.Event {
		var r []rec.Event
		for _, e := range es {
			if e.Ph != "b" {
				continue
			}
			for _, k := range kinds {
				if e.Kind == k {
					r = append(r, e)
				}
			}
		}
		return r
	}
	// C04 syntax on the greeting
	if len(run.Greet.Faults) > 0 {
		add("C04:reply-syntax", "greeting malformed: %v", run.Greet.Faults)
	}
	dataBegins, opens := 0, 0
	rcptsSinceReset := 0
	everTainted := false
	for i, o := range run.Obs {
		next := run.EndSeq
		if i+1 < len(run.Obs) {
			next = run.Obs[i+1].SentSeq
		}
		es := between(o.SentSeq, next)
		c := o.C
		rs := o.Replies
		name := fmt.Sprintf("#%d %s", i, c.Abs)
		mails := cbBegins(es, "Mail")
		rcptsCB := cbBegins(es, "Rcpt")
		datas := cbBegins(es, "Data", "LMTPData")
		news := cbBegins(es, "NewSession")
		resets := cbBegins(es, "Reset")
		logouts := cbBegins(es, "Logout")

		// ---------------- C04: syntax + enhanced codes
		for k, r := range rs {
			for _, f := range r.Faults {
				sig := "C04:reply-syntax"
				if strings.HasPrefix(f, "text:") {
					sig = "C04:reply-text-control-octet"
				}
				add(sig, "%s: reply %s: %s", name, r, f)
			}
			exempt := c.Kind == "hello" && r.Class() == 2 && c.Abs != "HELO"
			if c.Abs == "HELO" && r.Class() == 2 {
				exempt = true // RFC 2034 applies after EHLO; a HELO reply is judged leniently
			}
			_ = k
			if msg := wire.CheckEnhanced(r, exempt); msg != "" {
				add("C04:enhanced-code", "%s: %s", name, msg)
			}
		}

		// ---------------- C04: accounting (arity per command)
		nFinal := 1
		if h.Mode.lmtp() {
			nFinal = st.rcpts
		}
		want := 1
		switch {
		case c.Kind == "data" && o.Body:
			want = 1 + nFinal
		case c.Kind == "auth" && c.AuthResp != "" && len(rs) > 0 && rs[0].Code == 334:
			want = 2
		case c.Kind == "bdat" && c.Last && c.WellFormed && st.rcpts >= 1 && st.mailOK && h.Mode.lmtp() && !st.tainted:
			want = nFinal
		}
		switch {
		case len(rs) == want:
		case c.Kind == "bdat" && c.Last && h.MaxBytes > 0 && (c.Big || st.bigSeen) && len(rs) == 1 && rs[0].Class() == 5:
			// a LAST chunk refused for its size at command time: whether that refusal is one
			// reply or one per recipient is not fixed by the statement
		case len(rs) == want+1 && o.Closed && rs[len(rs)-1].Class() == 5:
			// closing notice after too many errors
		case len(rs) < want && o.Closed && len(rs) > 0 && (rs[len(rs)-1].Class() == 4 || rs[len(rs)-1].Class() == 5):
			// the server gave up (e.g. 421 after a backend panic) in the middle of the command
		default:
			if !st.tainted {
				add("C04:reply-count", "%s: expected %d repl%s, got %d (%s)%s", name, want, map[bool]string{true: "y", false: "ies"}[want == 1], len(rs), codes(rs), map[bool]string{true: " then the server closed", false: ""}[o.Closed])
			}
		}
		if c.Kind == "quit" && !(len(rs) == 1 && rs[0].Code == 221 && o.Closed) {
			add("C04:quit", "%s: QUIT must be answered 221 and the connection closed; got %s closed=%v", name, codes(rs), o.Closed)
		}

		// ---------------- C03 / C04 per kind
		judge := !st.tainted
		endTxn := func() {
			st.mailOK, st.rcpts, st.chunk, st.tainted, st.bigSeen, st.binary = false, 0, false, false, false, false
		}
		dataBegins += len(datas)
		switch c.Kind {
		case "hello":
			if len(news) > 0 {
				if !c.Flavour {
					add("C03:newsession-on-bad-greeting", "%s: NewSession called for a greeting of the wrong flavour / without argument", name)
				}
				n := news[0]
				if n.A != c.Arg {
					add("C03:newsession-hostname", "%s: NewSession saw Hostname()=%q while processing greeting %q", name, n.A, c.Arg)
				}
				if (n.N == 1) != st.tls {
					add("C03:newsession-tls", "%s: NewSession saw TLS=%v, connection TLS=%v", name, n.N == 1, st.tls)
				}
			}
			if !c.Flavour {
				if !all5xx(rs) && len(rs) > 0 {
					add("C03:bad-greeting-accepted", "%s: answered %s", name, codes(rs))
				}
				break
			}
			if all2xx(rs) {
				if !st.session && len(news) != 1 {
					add("C03:no-session-created", "%s: greeting accepted but NewSession was called %d times", name, len(news))
				}
				if st.session && len(news) != 0 {
					add("C03:second-session", "%s: a repeated greeting created another session", name)
				}
				if st.session && st.mailOK && len(resets) == 0 && len(logouts) == 0 {
					add("C03:no-reset:repeated-greeting", "%s: repeated greeting ended a transaction without Reset", name)
				}
				st.greeted, st.session = true, true
				endTxn()
			} else if c.Reject && len(rs) > 0 && !strings.Contains(rs[0].Text(), c.Token) && !st.session {
				add("C04:attribution:newsession", "%s: reply %s does not carry the backend's error %q", name, rs[0], c.Token)
			}
		case "mail":
			if len(mails) > 0 && !st.greeted {
				add("C03:mail-before-greeting", "%s: Mail callback without a successful greeting", name)
			}
			if !st.greeted {
				if !all5xx(rs) && len(rs) > 0 {
					add("C03:out-of-order-not-5xx", "%s: MAIL before greeting answered %s", name, codes(rs))
				}
				break
			}
			if st.chunk && judge {
				// RFC 3030: between the first BDAT and BDAT LAST only BDAT, RSET, NOOP and QUIT
				// are in order
				if len(mails) > 0 {
					add("C03:out-of-order-callback", "%s: MAIL during an open chunked transfer reached the backend", name)
				}
				if !all5xx(rs) && len(rs) > 0 {
					add("C03:out-of-order-not-5xx", "%s: MAIL during an open chunked transfer answered %s", name, codes(rs))
				}
			}
			if st.chunk || st.mailOK {
				// MAIL inside an open transaction / transfer: the statement does not say what
				// happens; if it is accepted the transaction is no longer judged.
				if all2xx(rs) {
					st.tainted = true
					st.mailOK = true
				}
				break
			}
			if len(mails) >= 1 && mails[0].A != c.Arg {
				add("C04:attribution:mail-arg", "%s: backend saw sender %q", name, mails[0].A)
			}
			if len(rs) > 0 && judge {
				if c.Reject {
					if rs[0].Class() == 2 {
						add("C04:attribution:mail", "%s: backend rejected the sender but the reply is %s", name, rs[0])
					} else if !strings.Contains(rs[0].Text(), c.Token) {
						add("C04:attribution:mail", "%s: reply %s does not carry the backend's error %q", name, rs[0], c.Token)
					}
				} else if rs[0].Class() != 2 {
					add("C04:attribution:mail", "%s: backend accepted the sender but the reply is %s", name, rs[0])
				} else if len(mails) != 1 {
					add("C03:mail-callback-count", "%s: accepted MAIL caused %d Mail callbacks", name, len(mails))
				}
			}
			if all2xx(rs) {
				st.mailOK = true
				st.binary = c.Binary
			}
		case "rcpt":
			if !st.mailOK && judge {
				if len(rcptsCB) > 0 {
					add("C03:rcpt-without-mail", "%s: Rcpt callback without an accepted MAIL", name)
				}
				if !all5xx(rs) && len(rs) > 0 {
					add("C03:out-of-order-not-5xx", "%s: RCPT without MAIL answered %s", name, codes(rs))
				}
				break
			}
			if judge && st.chunk {
				if len(rcptsCB) > 0 {
					add("C03:out-of-order-callback", "%s: RCPT during an open chunked transfer reached the backend", name)
				}
				if !all5xx(rs) && len(rs) > 0 {
					add("C03:out-of-order-not-5xx", "%s: RCPT during an open chunked transfer answered %s", name, codes(rs))
				}
			}
			if judge && !st.chunk && len(rs) > 0 {
				limitHit := h.MaxRcpt > 0 && st.rcpts >= h.MaxRcpt
				switch {
				case limitHit:
					if rs[0].Class() == 2 {
						add("C03:recipient-limit", "%s: recipient %d accepted with MaxRecipients=%d", name, st.rcpts+1, h.MaxRcpt)
					}
					// the backend's own count: a Rcpt call it answered with nil is a recipient it holds
					for _, e := range es {
						if e.Kind == "Rcpt" && e.Ph == "e" && e.Err == "" {
							add("C03:recipient-limit:backend-holds-more", "%s: the backend was asked for, and accepted, recipient %d with MaxRecipients=%d (the client was told %s)", name, st.rcpts+1, h.MaxRcpt, codes(rs))
						}
					}
				case c.Reject:
					if rs[0].Class() == 2 {
						add("C04:attribution:rcpt", "%s: backend rejected the recipient but the reply is %s", name, rs[0])
					} else if !strings.Contains(rs[0].Text(), c.Token) {
						add("C04:attribution:rcpt", "%s: reply %s does not carry the backend's error %q", name, rs[0], c.Token)
					}
				default:
					if rs[0].Class() != 2 {
						add("C04:attribution:rcpt", "%s: backend accepted the recipient but the reply is %s", name, rs[0])
					} else if len(rcptsCB) != 1 || rcptsCB[0].A != c.Arg {
						add("C03:rcpt-callback", "%s: accepted RCPT caused callbacks %v", name, rcptsCB)
					}
				}
			}
			if all2xx(rs) {
				st.rcpts++
			}
		case "data":
			if o.Body {
				opens++
			}
			if judge && st.chunk && o.Body {
				add("C03:out-of-order-not-5xx", "%s: DATA during an open chunked transfer answered 354", name)
			}
			if judge && !st.chunk {
				if st.rcpts == 0 || !st.mailOK {
					if o.Body {
						add("C03:data-without-rcpt", "%s: DATA accepted (354) without an accepted recipient", name)
					}
					if !all5xx(rs) && len(rs) > 0 {
						add("C03:out-of-order-not-5xx", "%s: DATA without recipients answered %s", name, codes(rs))
					}
				} else if !o.Body && !st.binary {
					add("C03:data-refused", "%s: DATA with %d accepted recipient(s) answered %s", name, st.rcpts, codes(rs))
				}
			}
			if !o.Body {
				break
			}
			if len(datas) < 1 {
				add("C03:data-callback-count", "%s: no Data callback for an accepted DATA", name)
			}
			if judge && !st.chunk {
				for _, r := range rs[1:] {
					if c.Big && h.MaxBytes > 0 {
						if r.Class() == 2 {
							add("C04:attribution:data", "%s: a message above MaxMessageBytes got the final reply %s", name, r)
						}
						continue
					}
					if c.Reject {
						if r.Class() == 2 {
							add("C04:attribution:data", "%s: backend rejected the message but the final reply is %s", name, r)
						} else if !strings.Contains(r.Text(), c.Token) {
							add("C04:attribution:data", "%s: final reply %s does not carry this message's error %q", name, r, c.Token)
						}
					} else if r.Class() != 2 {
						add("C04:attribution:data", "%s: backend accepted the message but the final reply is %s", name, r)
					}
				}
			}
			if st.session && len(resets) == 0 && len(logouts) == 0 {
				add("C03:no-reset:data", "%s: the transaction ended without Reset", name)
			}
			endTxn()
		case "bdat":
			if len(rs) == 0 {
				break
			}
			open := st.rcpts >= 1 && st.mailOK
			if !open {
				if judge && !all5xx(rs) {
					add("C03:out-of-order-not-5xx", "%s: BDAT without recipients answered %s", name, codes(rs))
				}
				if !judge && all2xx(rs) {
					// the implementation kept an envelope we do not know about: stay unjudged
					if c.Last {
						endTxn()
					}
				}
				break
			}
			positive := all2xx(rs)
			if !st.chunk && (positive || !judge || true) {
				// first chunk of the envelope: a transfer is (legitimately) opened
				opens++
			}
			ended := c.Last || !positive
			if c.Last && judge {
				for _, r := range rs {
					if h.MaxBytes > 0 && (c.Big || st.bigSeen) {
						if r.Class() == 2 {
							add("C04:attribution:bdat", "%s: a chunked message above MaxMessageBytes got the final reply %s", name, r)
						}
						continue
					}
					// the early failure is scripted by the first octets of the transfer: a FAIL chunk that
					// is not the first one of its transfer is ordinary content
					if c.Abs == "BDAT_FAIL_LAST" && st.chunk {
						continue // whether the backend sees FAILEARLY first depends on the earlier chunks being empty
					}
					rej := c.Reject
					switch {
					case rej && r.Class() == 2:
						add("C04:attribution:bdat", "%s: backend rejected the message but the final reply is %s", name, r)
					case rej && !strings.Contains(r.Text(), c.Token) && (c.Abs == "BDAT_LAST_REJ" || c.Abs == "BDAT_FAIL_LAST") && !st.chunk:
						add("C04:attribution:bdat", "%s: final reply %s does not carry this message's error %q", name, r, c.Token)
					case !rej && r.Class() != 2:
						add("C04:attribution:bdat", "%s: backend accepted the message but the final reply is %s", name, r)
					}
				}
			}
			if !judge {
				// unknown envelope state on the server side: only a positive LAST is a definite end
				if c.Last && positive {
					endTxn()
				} else if positive {
					st.chunk = true
				}
				break
			}
			if ended {
				if len(resets) == 0 && len(logouts) == 0 {
					sig := "C03:no-reset:bdat-last"
					if !c.Last {
						sig = "C03:no-reset:failed-chunk"
					}
					add(sig, "%s: the transaction ended (%s) without Reset", name, codes(rs))
				}
				endTxn()
			} else {
				st.chunk = true
				if c.Big {
					st.bigSeen = true
				}
			}
		case "rset":
			if all2xx(rs) {
				if st.session && st.mailOK && len(resets) == 0 && len(logouts) == 0 {
					add("C03:no-reset:rset", "%s: RSET ended a transaction without Reset", name)
				}
				endTxn()
			}
		case "starttls":
			if o.TLSUp {
				if st.session && len(logouts) != 1 {
					add("C03:starttls-logout", "%s: STARTTLS must log the plaintext session out exactly once (saw %d)", name, len(logouts))
				}
				st = txnState{tls: true}
			} else if st.tls && len(rs) > 0 && rs[0].Class() == 2 {
				add("C03:starttls-inside-tls", "%s: STARTTLS accepted inside TLS", name)
			}
		case "auth":
			if !st.greeted && len(cbBegins(es, "Auth", "SaslNext")) > 0 {
				add("C03:auth-before-greeting", "%s: AUTH reached the backend before a greeting", name)
			}
			if len(rs) > 0 && rs[len(rs)-1].Class() == 2 {
				st.authed = true
			}
		case "bad":
			if len(mails)+len(rcptsCB)+len(news) > 0 {
				add("C03:malformed-command-callback", "%s: a malformed command reached the backend", name)
			}
			if len(rs) > 0 && rs[0].Class() != 5 {
				add("C03:malformed-not-5xx", "%s: malformed command answered %s", name, codes(rs))
			}
		}
		// I4 from the backend's point of view, judged even inside an unjudged ("tainted")
		// transaction: between two Reset/Logout signals the number of recipients the server
		// acknowledged never exceeds the configured maximum.
		if len(resets)+len(logouts) > 0 {
			rcptsSinceReset = 0
		}
		if c.Kind == "rcpt" && all2xx(rs) {
			rcptsSinceReset++
			if h.MaxRcpt > 0 && rcptsSinceReset > h.MaxRcpt {
				add("C03:recipient-limit", "%s: %d recipients accepted since the last Reset with MaxRecipients=%d", name, rcptsSinceReset, h.MaxRcpt)
			}
		}
		if st.tainted {
			everTainted = true // transfer bookkeeping is unreliable from here on (see "tainted")
		}
		if dataBegins > opens && !everTainted {
			add("C03:data-without-transfer", "%s: %d Data callbacks have begun but only %d transfers were legitimately opened", name, dataBegins, opens)
		}
		if o.Closed {
			break
		}
	}
	return out
}
