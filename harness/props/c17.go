package props

import (
	"encoding/json"
	"errors"
	"fmt"
	"strings"

	smtp "github.com/emersion/go-smtp"

	"verifharness/core"
	"verifharness/rec"
	"verifharness/wire"
)

// C17 — backend errors reach the peer and the client with code, class and text intact.

type c17Case struct {
	Callback string  `json:"callback"` // newsession | mail | rcpt | data
	Plain    bool    `json:"plain"`    // plain error instead of *SMTPError
	Code     int     `json:"code"`
	Enh      string  `json:"enh"` // set | unset | none
	Msg      string  `json:"msg"`
	Mode     srvMode `json:"mode"`
	Via      string  `json:"via"`      // wire | client
	Transfer string  `json:"transfer"` // data | bdat (data callback only)
	Prior    bool    `json:"prior"`    // bdat only: an earlier chunked message on the connection failed in the middle of a chunk with another error
}

func init() {
	register(&Prop{ID: "C17", Run: c17Run, Replay: func(ctx *core.Ctx, raw json.RawMessage) error {
		return core.ReplayCase(ctx, raw, c17Exec)
	}})
}

var c17Msgs = []string{
	"", "simple text", " leading space", "trailing space ", "5.1.1 looks like an enhanced code", "non-ASCII ünï ドメイン", "two words",
	"SAMECODE begins with the very code that is set", "first line\nSAMECODE second line begins with the set code",
	"100% full, %s and %d are not verbs %", "percent %v\nsecond %x line",
	"line one\nline two", "l1\nl2\nl3", "first\n\nthird after empty", "a\n5.7.1 second line looks like a code", "tab\tinside",
	"trailing empty line\n", "long " + strings.Repeat("word ", 130) + "end", "short first\n" + strings.Repeat("x", 700),
}

func c17Run(ctx *core.Ctx) {
	ctx.Rule = "reply codes {450,451,452,550,552,554,599} x enhanced code {class-consistent, unset (EnhancedCodeNotSet), explicitly absent (NoEnhancedCode)} x 19 message shapes (empty, 650- and 700-octet lines, trailing empty line, leading/trailing space, text that looks like an enhanced code, non-ASCII, 1-3 lines, empty inner line) x the four callbacks (session creation, Mail, Rcpt, Data; DATA and BDAT; SMTP and LMTP) plus plain errors; observed twice: on the wire with the strict reply parser, and through the real go-smtp client's returned *SMTPError. Non-trivial: every case; distinct by case."
	ctx.Exhaustive = true
	ctx.Assumptions = []string{"NoEnhancedCode combined with text that looks like an enhanced code is not judged on the client side (the wire form is ambiguous)", "codes 500/502 are not used for session creation (the client falls back to HELO on them)"}
	core.RunCases(ctx, func(emit func(c17Case)) {
		for _, cb := range []string{"newsession", "mail", "rcpt", "data"} {
			for _, via := range []string{"wire", "client"} {
				for _, mode := range []srvMode{modeSMTP, modeLMTPRcpt, modeLMTP} {
					transfers := []string{""}
					if cb == "data" {
						transfers = []string{"data", "bdat"}
					}
					for _, tr := range transfers {
						if via == "client" && tr == "bdat" {
							continue
						}
						codesList := []int{450, 451, 452, 550, 552, 554, 599}
						if ctx.Thorough() {
							codesList = nil
							for cd := 400; cd < 600; cd += 7 {
								if cd != 500 && cd != 502 && cd != 421 {
									codesList = append(codesList, cd)
								}
							}
							codesList = append(codesList, 450, 451, 452, 550, 552, 554, 599)
						}
						for _, code := range codesList {
							for _, enh := range []string{"set", "unset", "none", "mismatch"} {
								for _, m := range c17Msgs {
									emit(c17Case{Callback: cb, Code: code, Enh: enh, Msg: m, Mode: mode, Via: via, Transfer: tr})
									if tr == "bdat" && via == "wire" && (code == 450 || code == 554) {
										emit(c17Case{Callback: cb, Code: code, Enh: enh, Msg: m, Mode: mode, Via: via, Transfer: tr, Prior: true})
									}
								}
							}
						}
						for _, m := range []string{"plain failure text", "plain\nwith two lines", "x"} {
							emit(c17Case{Callback: cb, Plain: true, Msg: m, Mode: mode, Via: via, Transfer: tr})
						}
					}
				}
			}
		}
	}, c17Exec)
}

func (c c17Case) err() error {
	if c.Plain {
		return errors.New(c.Msg)
	}
	e := &smtp.SMTPError{Code: c.Code, Message: c.Msg}
	switch c.Enh {
	case "set":
		e.EnhancedCode = smtp.EnhancedCode(c.setEnh())
	case "none":
		e.EnhancedCode = smtp.NoEnhancedCode
	case "mismatch":
		// an enhanced code whose class differs from the reply code's: unusual, but the
		// statement says "the same ... enhanced code"
		e.EnhancedCode = smtp.EnhancedCode{9 - c.Code/100, 7, 1}
	}
	return e
}

// setEnh is the enhanced code of the "set" mode: subject and detail vary with the reply code and
// the message over the whole 1*3DIGIT range of RFC 3463 (values above 255 included).
func (c c17Case) setEnh() [3]int {
	n := c.Code*31 + len(c.Msg)*7
	return [3]int{c.Code / 100, []int{7, 0, 1, 13, 255, 256, 509, 999}[n%8], []int{13, 0, 1, 99, 255, 256, 300, 999}[(n/8)%8]}
}

// expected code / enhanced code / text
func (c c17Case) expected() (code int, enh [3]int, hasEnh bool, text string) {
	if c.Plain {
		if c.Callback == "data" {
			return 554, [3]int{5, 0, 0}, true, "Error: transaction failed: " + c.Msg
		}
		return 451, [3]int{4, 0, 0}, true, c.Msg
	}
	switch c.Enh {
	case "set":
		return c.Code, c.setEnh(), true, c.Msg
	case "unset":
		return c.Code, [3]int{c.Code / 100, 0, 0}, true, c.Msg
	case "mismatch":
		return c.Code, [3]int{9 - c.Code/100, 7, 1}, true, c.Msg
	}
	return c.Code, [3]int{}, false, c.Msg
}

func c17Hooks(rig *wire.Rig, c c17Case) {
	e := c.err()
	switch c.Callback {
	case "newsession":
		rig.BE.H.NewSession = func(*smtp.Conn, int) error { return e }
	case "mail":
		rig.BE.H.Mail = func(int, string, *smtp.MailOptions) error { return e }
	case "rcpt":
		rig.BE.H.Rcpt = func(sess int, to string, o *smtp.RcptOptions) error {
			if strings.HasPrefix(to, "bad") {
				return e
			}
			return nil
		}
	case "data":
		calls := 0
		rig.BE.H.Data = func(sess int, r *rec.Reader, st smtp.StatusCollector) error {
			calls++
			if c.Prior && calls == 1 {
				r.ReadN(3, 3)
				return &smtp.SMTPError{Code: 451, EnhancedCode: smtp.EnhancedCode{4, 3, 0}, Message: "v#prior failure of the earlier message"}
			}
			r.ReadAll(64)
			return e
		}
	}
}

func c17Exec(ctx *core.Ctx, c c17Case) {
	if strings.Contains(c.Msg, "SAMECODE") {
		code := fmt.Sprintf("%d.7.13", c.Code/100)
		if c.Enh == "unset" {
			code = fmt.Sprintf("%d.0.0", c.Code/100)
		}
		if c.Enh == "mismatch" {
			code = fmt.Sprintf("%d.7.1", 9-c.Code/100)
		}
		c.Msg = strings.ReplaceAll(c.Msg, "SAMECODE", code)
	}
	ctx.Eval(fmt.Sprintf("%s|%v|%d|%s|%q|%s|%s|%s|%v", c.Callback, c.Plain, c.Code, c.Enh, c.Msg, c.Mode, c.Via, c.Transfer, c.Prior), true)
	rig := newRig(c.Mode, nil)
	c17Hooks(rig, c)
	p := rig.Dial()
	wantCode, wantEnh, hasEnh, wantText := c.expected()
	fail := func(sig, msg string) {
		ctx.Violate(sig, msg+fmt.Sprintf(" [callback=%s plain=%v code=%d enh=%s msg=%q mode=%s via=%s transfer=%s]", c.Callback, c.Plain, c.Code, c.Enh, c.Msg, c.Mode, c.Via, c.Transfer), c, rig.Log.Strings(60))
	}
	defer func() { p.Close(); rig.Finish() }()
	if c.Via == "wire" {
		var target []wire.Reply
		g, _ := p.ReadReply()
		_ = g
		step := func(line string) []wire.Reply {
			p.SendStr(line)
			rs, _ := p.ReadUntilStall()
			ctx.Add("replies_parsed", int64(len(rs)))
			return rs
		}
		rs := step(c.Mode.hello() + "\r\n")
		if c.Prior {
			step("MAIL FROM:<s0@x.test>\r\n")
			step("RCPT TO:<good@x.test>\r\n")
			p.SendStr("BDAT 40\r\n")
			step("0123456789012345678901234567890123456789")
		}
		if c.Callback == "newsession" {
			target = rs
		} else {
			rs = step("MAIL FROM:<s@x.test>\r\n")
			if c.Callback == "mail" {
				target = rs
			} else {
				rs = step("RCPT TO:<good@x.test>\r\n")
				rs = step("RCPT TO:<bad@x.test>\r\n")
				if c.Callback == "rcpt" {
					target = rs
				} else if c.Transfer == "bdat" {
					p.SendStr("BDAT 4 LAST\r\n")
					target = step("abcd")
				} else {
					step("DATA\r\n")
					target = step("body\r\n.\r\n")
				}
			}
		}
		if len(target) == 0 {
			fail("C17:no-reply", "no reply to the command whose callback failed")
			return
		}
		for ri, r := range target {
			if len(r.Faults) > 0 {
				fail("C17:reply-syntax", fmt.Sprintf("reply %q: %v", r.Raw, r.Faults))
				return
			}
			if r.Code != wantCode {
				fail("C17:wire-code", fmt.Sprintf("reply code %d, backend returned %d", r.Code, wantCode))
				return
			}
			// strip the enhanced code; it must be on the final line, and equal wherever present
			wantLines := strings.Split(wantText, "\n")
			if c.Callback == "data" && c.Mode.lmtp() {
				// per-recipient form: "<rcpt> " precedes the text on the first line (after the code)
				rc := []string{"good@x.test", "bad@x.test"}[ri%2]
				wantLines[0] = "<" + rc + "> " + wantLines[0]
			}
			if len(r.Lines) != len(wantLines) {
				fail("C17:wire-text", fmt.Sprintf("reply has %d lines %q, message has %d", len(r.Lines), r.Lines, len(wantLines)))
				return
			}
			for i, line := range r.Lines {
				final := i == len(r.Lines)-1
				text := line
				if hasEnh {
					prefix := fmt.Sprintf("%d.%d.%d", wantEnh[0], wantEnh[1], wantEnh[2])
					switch {
					case strings.HasPrefix(line, prefix+" "):
						text = line[len(prefix)+1:]
					case line == prefix:
						text = ""
					case final:
						fail("C17:wire-enhanced-code", fmt.Sprintf("final line %q does not start with enhanced code %s", line, prefix))
						return
					}
				}
				if text != wantLines[i] {
					fail("C17:wire-text", fmt.Sprintf("line %d is %q (text %q), message line is %q", i, line, text, wantLines[i]))
					return
				}
			}
			if !hasEnh {
				if _, _, _, _, ok := r.Enhanced(len(r.Lines) - 1); ok && !strings.Contains(wantText, ".") {
					fail("C17:wire-enhanced-code", fmt.Sprintf("NoEnhancedCode was requested but the reply carries one: %q", r.Lines))
					return
				}
			}
		}
		if ctx.WantSample("wire/" + c.Callback) {
			ctx.Sample("wire/"+c.Callback, map[string]any{"callback": c.Callback, "backend_error": fmt.Sprintf("%#v", c.err()), "wire": target[0].Raw})
		}
		return
	}
	// via the real client
	var cl *smtp.Client
	if c.Mode.lmtp() {
		cl = smtp.NewClientLMTP(p.Raw)
	} else {
		cl = smtp.NewClient(p.Raw)
	}
	defer cl.Close()
	var got error
	var lmtpStatuses []*smtp.SMTPError
	got = cl.Hello("client.test")
	if c.Callback != "newsession" {
		if got != nil {
			fail("C17:client-setup", "Hello failed: "+got.Error())
			return
		}
		got = cl.Mail("s@x.test", nil)
		if c.Callback != "mail" {
			if got != nil {
				fail("C17:client-setup", "Mail failed: "+got.Error())
				return
			}
			cl.Rcpt("good@x.test", nil)
			got = cl.Rcpt("bad@x.test", nil)
			if c.Callback != "rcpt" {
				var w interface {
					Write([]byte) (int, error)
					Close() error
				}
				var err error
				if c.Mode.lmtp() {
					w, err = cl.LMTPData(func(rcpt string, st *smtp.SMTPError) { lmtpStatuses = append(lmtpStatuses, st) })
				} else {
					w, err = cl.Data()
				}
				if err != nil {
					fail("C17:client-setup", "Data failed: "+err.Error())
					return
				}
				w.Write([]byte("body\r\n"))
				got = w.Close()
				if c.Mode.lmtp() {
					if got != nil || len(lmtpStatuses) == 0 || lmtpStatuses[0] == nil {
						fail("C17:client-error-lost", fmt.Sprintf("LMTP: Close returned %v, statuses %v", got, lmtpStatuses))
						return
					}
					got = lmtpStatuses[0]
				}
			}
		}
	}
	var se *smtp.SMTPError
	if !errors.As(got, &se) {
		fail("C17:client-error-lost", fmt.Sprintf("the client returned %v (%T), expected an *SMTPError", got, got))
		return
	}
	if c.Callback == "data" && c.Mode.lmtp() {
		// the per-recipient prefix is part of the LMTP reply text
		wantText = "<good@x.test> " + wantText
	}
	if !hasEnh && looksLikeEnh(wantText) {
		ctx.Add("not_judged_ambiguous", 1)
		return
	}
	if se.Code != wantCode {
		fail("C17:client-code", fmt.Sprintf("client error code %d, backend returned %d", se.Code, wantCode))
		return
	}
	if hasEnh {
		if [3]int(se.EnhancedCode) != wantEnh {
			fail("C17:client-enhanced-code", fmt.Sprintf("client error enhanced code %v, expected %v (message %q)", se.EnhancedCode, wantEnh, se.Message))
			return
		}
	} else if se.EnhancedCode != smtp.NoEnhancedCode && se.EnhancedCode != smtp.EnhancedCodeNotSet {
		fail("C17:client-enhanced-code", fmt.Sprintf("client error enhanced code %v although the backend sent none", se.EnhancedCode))
		return
	}
	if se.Message != wantText {
		fail("C17:client-text", fmt.Sprintf("client error message %q, backend returned %q", se.Message, wantText))
		return
	}
	if ctx.WantSample("client/" + c.Callback) {
		ctx.Sample("client/"+c.Callback, map[string]any{"callback": c.Callback, "backend_error": fmt.Sprintf("%#v", c.err()), "client_error": fmt.Sprintf("%#v", se)})
	}
}

func looksLikeEnh(s string) bool {
	first := s
	if i := strings.IndexByte(s, ' '); i >= 0 {
		first = s[:i]
	}
	if i := strings.IndexByte(first, '\n'); i >= 0 {
		first = first[:i]
	}
	_, _, _, _, ok := wire.ParseEnhanced(first)
	return ok
}
