package props

import (
	"encoding/json"
	"fmt"
	"sort"
	"strings"
	"time"

	smtp "github.com/emersion/go-smtp"

	"verifharness/core"
	"verifharness/memconn"
	"verifharness/rec"
	"verifharness/wire"
)

// C04 — one well-formed reply per command, in order, reporting that command's outcome.

type c04Case struct {
	Kind string `json:"kind"` // hist | overlap | echo
	H    hcase  `json:"h"`

	// overlap
	Order []string `json:"order"` // permutation of G1 S2 G2
	Abort string   `json:"abort"` // RSET | HELLO
	T2    string   `json:"t2"`    // bdat | data
	V1    string   `json:"v1"`
	V2    string   `json:"v2"` // accept | reject
	V2x   string   `json:"v2x"`
	Mode  srvMode  `json:"mode"`

	// echo
	Site  string `json:"site"`
	Octet int    `json:"octet"`

	// clock
	TLS    string `json:"tls"`     // plain | implicit | starttls
	RT     bool   `json:"rt"`      // Server.ReadTimeout set
	WT     bool   `json:"wt"`      // Server.WriteTimeout set
	FireAt int    `json:"fire_at"` // before which step of the conversation "a long time passes"
}

func init() {
	register(&Prop{ID: "C04", Run: c04Run, Replay: func(ctx *core.Ctx, raw json.RawMessage) error {
		return core.ReplayCase(ctx, raw, c04Exec)
	}, Parts: func(tier string) []Part {
		if tier == "thorough" {
			return []Part{{Name: "main"}, {Name: "p1", GOMAXPROCS: 1}, {Name: "p4", GOMAXPROCS: 4}, {Name: "race", Race: true}}
		}
		return []Part{{Name: "main"}, {Name: "p1", GOMAXPROCS: 1}}
	}})
}

var c04EchoSites = []string{"EHLO-domain", "unknown-verb", "MAIL-address", "RCPT-address", "HELO-domain", "MAIL-param", "VRFY-arg", "AUTH-mech"}
var c04EchoOctets = []int{0x00, 0x01, 0x07, 0x08, 0x0b, 0x0c, 0x0d, 0x1b, 0x1f, 0x7f}

func c04Run(ctx *core.Ctx) {
	exLen, nSeeded, maxLen := 1, 30000, 16
	if ctx.Thorough() {
		exLen, nSeeded, maxLen = 2, 500000, 22
	}
	if ctx.Part != "main" {
		nSeeded /= 4
	}
	ctx.Rule = fmt.Sprintf("(A-C) the C03 history workload (all suffixes of length <=%d after 10 prefix states x 6 configurations + %d seeded histories up to length %d) executed lock-step with per-command reply accounting, strict RFC 5321 reply parsing, enhanced-code class rule and token attribution of backend verdicts; (D) every history re-executed as RFC 2920 pipelined groups and re-cut at seeded offsets, reply-code and callback sequences compared with the lock-step run; overlap matrix for chunked transfers: all 6 orders of {delivery 1 released, transaction 2 completed by the client, delivery 2 released} x abort {RSET, new greeting} x transaction 2 {BDAT LAST, DATA} x verdicts x {SMTP, LMTP}; control octets at %d reply-echo sites. Non-trivial: at least three backend callbacks observed; distinct by case.", exLen, nSeeded, maxLen, len(c04EchoSites))
	ctx.Assumptions = []string{"exact reply codes are judged only where the statement fixes them", "8-bit octets in reply text are not judged", "known findings C04:reply-text-control-octet:echo=<site> are matched per echo site"}
	core.RunCases(ctx, func(emit func(c04Case)) {
		histGenerate(ctx, exLen, nSeeded, maxLen, 41, func(h hcase) { emit(c04Case{Kind: "hist", H: h}) })
		core.Permutations(3, func(p []int) {
			names := []string{"G1", "S2", "G2"}
			order := []string{names[p[0]], names[p[1]], names[p[2]]}
			for _, ab := range []string{"RSET", "HELLO", "EARLYFAIL"} {
				for _, t2 := range []string{"bdat", "data"} {
					for _, v1 := range []string{"readerr", "reject"} {
						for _, v2 := range []string{"accept", "reject"} {
							for _, m := range []srvMode{modeSMTP, modeLMTPRcpt, modeLMTP} {
								for rep := 0; rep < 3; rep++ {
									emit(c04Case{Kind: "overlap", Order: order, Abort: ab, T2: t2, V1: v1, V2: v2, Mode: m, V2x: fmt.Sprint(rep)})
								}
							}
						}
					}
				}
			}
		})
		if ctx.Part == "main" {
			for _, site := range c04EchoSites {
				for _, oc := range c04EchoOctets {
					emit(c04Case{Kind: "echo", Site: site, Octet: oc})
				}
			}
		}
		// a connection whose reply writes fail from the k-th on, then an ordinary connection to the
		// same server: what could not be delivered to the first peer is nobody else's reply
		for k := 0; k <= 8; k++ {
			for _, mode := range []srvMode{modeSMTP, modeLMTPRcpt} {
				for rep := 0; rep < 3; rep++ {
					emit(c04Case{Kind: "afterfail", FireAt: k, Mode: mode, Octet: rep})
				}
			}
		}
		for _, site := range []string{"Mail", "Rcpt", "Data"} {
			for _, t2 := range []string{"data", "bdat"} {
				for _, mode := range []srvMode{modeSMTP, modeLMTPRcpt, modeLMTP} {
					emit(c04Case{Kind: "slowcb", Site: site, T2: t2, Mode: mode, RT: true})
					emit(c04Case{Kind: "slowcb", Site: site, T2: t2, Mode: mode, WT: true})
					emit(c04Case{Kind: "slowcb", Site: site, T2: t2, Mode: mode, RT: true, WT: true})
				}
			}
		}
		for _, tls := range []string{"plain", "implicit", "starttls"} {
			for _, rt := range []bool{false, true} {
				for _, wt := range []bool{false, true} {
					if rt && wt {
						continue // both configured: every armed deadline is legitimate
					}
					for at := 0; at < 7; at++ {
						emit(c04Case{Kind: "clock", TLS: tls, RT: rt, WT: wt, FireAt: at, Mode: modeSMTP})
					}
				}
			}
		}
	}, c04Exec)
}

func c04Exec(ctx *core.Ctx, c c04Case) {
	switch c.Kind {
	case "hist":
		c04Hist(ctx, c)
	case "overlap":
		c04Overlap(ctx, c)
	case "echo":
		c04Echo(ctx, c)
	case "clock":
		c04Clock(ctx, c)
	case "slowcb":
		c04SlowCallback(ctx, c)
	case "afterfail":
		c04AfterFail(ctx, c)
	}
}

// c04AfterFail: connection 1 pipelines a conversation and goes away; the server's writes on it
// fail from the FireAt-th on. Connection 2 of the same server then holds an ordinary lock-step
// conversation: exactly one reply per command, each the reply to that command - nothing that was
// meant for connection 1.
func c04AfterFail(ctx *core.Ctx, c c04Case) {
	ctx.Eval(fmt.Sprintf("afterfail|%d|%s|%d", c.FireAt, c.Mode, c.Octet), true)
	rig := newRig(c.Mode, nil)
	p1 := rig.DialWith(func(srv *memconn.Conn) { srv.FailWriteAfter(c.FireAt, memconn.ErrReset) })
	p1.SendStr(c.Mode.hello() + "\r\nNOOP\r\nMAIL FROM:<first@x.test>\r\nRCPT TO:<first-r@x.test>\r\nVRFY someone\r\nRSET\r\nNOOP\r\nQUIT\r\n")
	p1.Raw.CloseWrite()
	p1.ReadAll()
	p1.Close()
	p := rig.Dial()
	var all []wire.Reply
	steps := []struct {
		send string
		want int
	}{{"", 220}, {c.Mode.hello() + "\r\n", 250}, {"NOOP\r\n", 250}, {"MAIL FROM:<second@x.test>\r\n", 250}, {"RCPT TO:<second-r@x.test>\r\n", 250}, {"DATA\r\n", 354}, {"body\r\n.\r\n", 250}, {"QUIT\r\n", 221}}
	for _, st := range steps {
		if st.send != "" {
			p.SendStr(st.send)
		}
		rs, _ := p.ReadUntilStall()
		all = append(all, rs...)
		ctx.Add("replies_parsed", int64(len(rs)))
		bad := len(rs) != 1 || rs[0].Code != st.want
		if !bad && st.want == 250 && strings.HasPrefix(st.send, "MAIL") && !strings.Contains(rs[0].Text(), "second@x.test") {
			bad = true // the MAIL reply names its sender
		}
		if !bad {
			for _, r := range rs {
				if strings.Contains(r.Text(), "first") {
					bad = true
				}
			}
		}
		if bad {
			p.Close()
			rig.Finish()
			ctx.Violate("C04:reply-of-another-connection", fmt.Sprintf("after a connection whose writes failed from the %d-th on, %q on a new connection was answered %s (expected one %d reply of its own)", c.FireAt, st.send, replyStrings(rs), st.want), c, witness(rig.Log, all))
			return
		}
	}
	p.Close()
	rig.Finish()
	if ctx.WantSample("afterfail") {
		ctx.Sample("afterfail", map[string]any{"writes_before_failure_on_first_connection": c.FireAt, "mode": c.Mode, "second_connection_replies": codes(all)})
	}
}

// c04SlowCallback: a backend callback takes longer than ReadTimeout while the peer has already
// pipelined the next commands (and, for BDAT, the payload). The time the backend took is not the
// peer's idle time: every command line is read under a deadline of its own, so the pipelined
// DATA / BDAT and the message behind it are served normally.
func c04SlowCallback(ctx *core.Ctx, c c04Case) {
	ctx.Eval(fmt.Sprintf("slowcb|%s|%s|%s|%v|%v", c.Site, c.T2, c.Mode, c.RT, c.WT), true)
	rig := newRig(c.Mode, func(s *smtp.Server) {
		if c.RT {
			s.ReadTimeout = time.Hour // virtual clock
		}
		if c.WT {
			s.WriteTimeout = time.Hour
		}
	})
	gate := rec.NewGate()
	defer gate.OpenAll()
	rig.BE.H.Mail = func(int, string, *smtp.MailOptions) error {
		if c.Site == "Mail" {
			gate.Wait("slow")
		}
		return nil
	}
	rig.BE.H.Rcpt = func(int, string, *smtp.RcptOptions) error {
		if c.Site == "Rcpt" {
			gate.Wait("slow")
		}
		return nil
	}
	rig.BE.H.Data = func(sess int, r *rec.Reader, st smtp.StatusCollector) error {
		r.ReadAll(64)
		if c.Site == "Data" {
			gate.Wait("slow") // the whole message is in; the verdict takes its time
		}
		return nil
	}
	p := rig.Dial()
	var all []wire.Reply
	fail := func(sig, msg string) {
		ctx.Violate(sig, msg+fmt.Sprintf(" [slow callback=%s transfer=%s mode=%s ReadTimeout=%v WriteTimeout=%v]", c.Site, c.T2, c.Mode, c.RT, c.WT), c, witness(rig.Log, all))
	}
	p.SendStr(c.Mode.hello() + "\r\n")
	rs, err := expect(p, 2)
	all = append(all, rs...)
	if err != nil {
		p.Close()
		rig.Finish()
		ctx.Inconclusive("C04 slowcb preamble")
		return
	}
	// one segment: the envelope and the start of the transfer
	burst := "MAIL FROM:<s@x.test>\r\nRCPT TO:<r@x.test>\r\n"
	want := []int{250, 250}
	if c.T2 == "data" {
		burst += "DATA\r\n"
		want = append(want, 354)
	} else {
		burst += "BDAT 12 LAST\r\nchunk-data\r\n"
		want = append(want, 250)
	}
	p.SendStr(burst)
	bodySent := false
	if c.Site == "Data" && c.T2 == "data" {
		// the slow step is the verdict: the message itself goes out promptly after the 354
		rs, err = expect(p, len(want))
		all = append(all, rs...)
		if err != nil {
			p.Close()
			rig.Finish()
			fail("C04:stale-deadline-after-slow-callback", fmt.Sprintf("the pipelined envelope and DATA were answered %s (%v), expected %v", codes(rs), err, want))
			return
		}
		p.SendStr("body line\r\n.\r\n")
		bodySent = true
		want = []int{250}
	}
	if !gate.WaitParked("slow") {
		p.Close()
		rig.Finish()
		ctx.Inconclusive("C04 slowcb: callback not reached")
		return
	}
	// more than ReadTimeout / WriteTimeout passes while the backend is busy
	if p.SrvEnd.FireReadDeadline() {
		rig.Log.Act("read deadline expired while the backend was busy in " + c.Site)
	}
	if p.SrvEnd.FireWriteDeadline() {
		rig.Log.Act("write deadline expired while the backend was busy in " + c.Site)
		ctx.Add("write_deadlines_expired_during_a_slow_callback", 1)
	}
	gate.Open("slow")
	rs, err = expect(p, len(want))
	all = append(all, rs...)
	if err != nil || codes(rs) != strings.Trim(strings.ReplaceAll(fmt.Sprint(want), " ", ","), "[]") {
		p.Close()
		rig.Finish()
		fail("C04:stale-deadline-after-slow-callback", fmt.Sprintf("the replies that follow the slow %s callback were %s (%v), expected %v: the time the backend took is neither the peer's idle time nor the time a reply took to write", c.Site, codes(rs), err, want))
		return
	}
	if c.T2 == "data" && !bodySent {
		p.SendStr("body line\r\n.\r\n")
		r, err := p.ReadReply()
		all = append(all, r)
		if err != nil || r.Code != 250 {
			p.Close()
			rig.Finish()
			fail("C04:stale-deadline-after-slow-callback", fmt.Sprintf("the message sent promptly after the 354 was answered %s (%v)", r, err))
			return
		}
	}
	p.SendStr("NOOP\r\nQUIT\r\n")
	rs, _ = p.ReadAll()
	all = append(all, rs...)
	p.Close()
	rig.Finish()
	if codes(rs) != "250,221" {
		fail("C04:stale-deadline-after-slow-callback", fmt.Sprintf("NOOP, QUIT after the message were answered %s", codes(rs)))
		return
	}
	ctx.Add("replies_parsed", int64(len(all)))
	if ctx.WantSample("slowcb/" + c.Site) {
		ctx.Sample("slowcb/"+c.Site, map[string]any{"slow_callback": c.Site, "transfer": c.T2, "mode": c.Mode, "read_timeout": c.RT, "write_timeout": c.WT, "replies": codes(all)})
	}
}

// c04Clock: a long time passes in the middle of a lively conversation. Only the timeouts the
// server was configured with may have any effect: the deadline of a direction whose timeout is
// unset must not be armed at all (e.g. left over from the TLS handshake), so firing it changes
// nothing and every command still gets its reply.
func c04Clock(ctx *core.Ctx, c c04Case) {
	ctx.Eval(fmt.Sprintf("clock|%s|%v|%v|%d|%s", c.TLS, c.RT, c.WT, c.FireAt, c.Mode), true)
	rig := newRig(c.Mode, func(s *smtp.Server) {
		if c.RT {
			s.ReadTimeout = time.Hour // virtual clock
		}
		if c.WT {
			s.WriteTimeout = time.Hour
		}
		if c.TLS == "starttls" {
			s.TLSConfig = wire.ServerTLS()
		}
	})
	var p *wire.Peer
	if c.TLS == "implicit" {
		var err error
		p, err = rig.DialTLS()
		if err != nil {
			p.Close()
			rig.Finish()
			ctx.Inconclusive("C04 clock: implicit TLS handshake failed: " + err.Error())
			return
		}
	} else {
		p = rig.Dial()
	}
	var all []wire.Reply
	fail := func(sig, msg string) {
		ctx.Violate(sig, msg+fmt.Sprintf(" [tls=%s ReadTimeout set=%v WriteTimeout set=%v time passes before step %d mode=%s]", c.TLS, c.RT, c.WT, c.FireAt, c.Mode), c, witness(rig.Log, all))
	}
	g, err := p.ReadReply()
	all = append(all, g)
	if err != nil {
		p.Close()
		rig.Finish()
		fail("C04:clock-greeting", fmt.Sprintf("no greeting: %v", err))
		return
	}
	steps := []struct {
		send string
		want []int
	}{
		{c.Mode.hello() + "\r\n", []int{250}},
		{"MAIL FROM:<s@x.test>\r\n", []int{250}},
		{"RCPT TO:<r@x.test>\r\n", []int{250}},
		{"DATA\r\n", []int{354}},
		{"body\r\n.\r\n", []int{250}},
		{"NOOP\r\n", []int{250}},
		{"QUIT\r\n", []int{221}},
	}
	if c.TLS == "starttls" {
		p.SendStr(c.Mode.hello() + "\r\nSTARTTLS\r\n")
		rs, err := expect(p, 2)
		all = append(all, rs...)
		if err != nil || rs[1].Code != 220 || p.StartTLSClient() != nil {
			p.Close()
			rig.Finish()
			ctx.Inconclusive("C04 clock: STARTTLS failed")
			return
		}
		p.Raw.WaitPeerIdle(wire.Watchdog)
	}
	for i, st := range steps {
		if i == c.FireAt {
			p.Raw.WaitPeerIdle(wire.Watchdog)
			var fired []string
			if !c.RT && p.SrvEnd.FireReadDeadline() {
				fired = append(fired, "read")
			}
			if !c.WT && p.SrvEnd.FireWriteDeadline() {
				fired = append(fired, "write")
			}
			if len(fired) > 0 {
				rig.Log.Act("a deadline was armed for a direction without timeout; fired: " + strings.Join(fired, ", "))
			}
		}
		p.SendStr(st.send)
		rs, err := p.ReadUntilStall()
		all = append(all, rs...)
		if len(rs) != len(st.want) || rs[0].Code != st.want[0] {
			p.Close()
			rig.Finish()
			fail("C04:reply-lost-to-stale-deadline", fmt.Sprintf("step %d (%q) was answered %s (%v), expected %v", i, st.send, codes(rs), err, st.want))
			return
		}
	}
	p.Close()
	rig.Finish()
	ctx.Add("replies_parsed", int64(len(all)))
	if ctx.WantSample("clock/" + c.TLS) {
		ctx.Sample("clock/"+c.TLS, map[string]any{"tls": c.TLS, "read_timeout": c.RT, "write_timeout": c.WT, "time_passes_before_step": c.FireAt, "replies": codes(all)})
	}
}

// syncCallbacks is the sequence of callbacks that the command loop makes synchronously, plus
// the sorted multiset of delivery results.
func syncCallbacks(ev []rec.Event) string {
	var seq []string
	var deliveries []string
	for _, e := range ev {
		switch {
		case e.Ph == "b" && (e.Kind == "NewSession" || e.Kind == "Mail" || e.Kind == "Rcpt" || e.Kind == "Auth"):
			seq = append(seq, e.Kind+"("+e.A+")")
		case e.Ph == "e" && (e.Kind == "Data" || e.Kind == "LMTPData") && e.B == "EOF":
			// only completed deliveries: whether and when an aborted transfer's delivery
			// goroutine gets to run is timing
			deliveries = append(deliveries, fmt.Sprintf("%s[%d octets,%s]", e.Kind, len(e.A), e.B))
		}
	}
	sort.Strings(deliveries)
	return strings.Join(seq, " ") + " || " + strings.Join(deliveries, " ")
}

func c04Hist(ctx *core.Ctx, c c04Case) {
	lock := histJudge(ctx, c.H, "C04:")
	if lock == nil {
		return
	}
	for _, disc := range []string{"pipe", "recut"} {
		h := c.H
		h.Disc = disc
		h.CutSeed = core.HashStr(c.H.key())
		run := histExecBurst(h)
		ctx.Eval(h.key(), countBackendEvents(run.Ev) >= 3)
		if run.Inconcl != "" {
			ctx.Inconclusive("C04 " + disc + ": " + run.Inconcl)
			continue
		}
		ctx.Add("replies_parsed", int64(len(run.All)))
		ctx.Add("backend_events", countBackendEvents(run.Ev))
		fail := func(sig, msg string) {
			cc := c
			cc.H = h
			ctx.Violate(sig, msg+fmt.Sprintf(" [mode=%s maxrcpt=%d maxbytes=%d disc=%s hist=%s]", h.Mode, h.MaxRcpt, h.MaxBytes, disc, strings.Join(h.Hist, ",")), cc,
				append(append(witness(run.Log, run.All), "=== lock-step run of the same history ==="), witness(lock.Log, lock.All)...))
		}
		for _, r := range run.All {
			for _, f := range r.Faults {
				if strings.HasPrefix(f, "text:") {
					fail("C04:reply-text-control-octet", fmt.Sprintf("reply %s: %s", r, f))
				} else {
					fail("C04:reply-syntax", fmt.Sprintf("reply %s: %s", r, f))
				}
			}
		}
		if codes(run.All) != codes(lock.All) {
			fail("C04:segmentation-dependent-replies", fmt.Sprintf("reply codes differ between disciplines: %s: %s ; lock-step: %s", disc, codes(run.All), codes(lock.All)))
			continue
		}
		if a, b := syncCallbacks(run.Ev), syncCallbacks(lock.Ev); a != b {
			fail("C04:segmentation-dependent-callbacks", fmt.Sprintf("backend callbacks differ between disciplines: %s: %s ; lock-step: %s", disc, a, b))
		}
	}
}

func c04Overlap(ctx *core.Ctx, c c04Case) {
	ctx.Eval(fmt.Sprintf("overlap|%v|%s|%s|%s|%s|%s|%s", c.Order, c.Abort, c.T2, c.V1, c.V2, c.Mode, c.V2x), true)
	rig := newRig(c.Mode, nil)
	gate := rec.NewGate()
	defer gate.OpenAll()
	rig.BE.H.Data = func(sess int, r *rec.Reader, st smtp.StatusCollector) error {
		r.ReadN(2, 2)
		which := string(r.Got)
		if which == "T1" && c.Abort == "EARLYFAIL" {
			// gives up in the middle of the first chunk, before the chunk has been copied
			return &smtp.SMTPError{Code: 554, EnhancedCode: smtp.EnhancedCode{5, 6, 0}, Message: "v#T1 rejected early"}
		}
		if which == "T1" {
			r.ReadN(8, 8)
			gate.Wait("d1")
			err := r.ReadAll(64)
			if c.V1 == "reject" {
				return &smtp.SMTPError{Code: 554, EnhancedCode: smtp.EnhancedCode{5, 6, 0}, Message: "v#T1 rejected"}
			}
			return err
		}
		gate.Wait("d2")
		err := r.ReadAll(64)
		if c.V2 == "reject" {
			return &smtp.SMTPError{Code: 554, EnhancedCode: smtp.EnhancedCode{5, 6, 0}, Message: "v#T2 rejected"}
		}
		if err != nil && err.Error() != "EOF" {
			return err
		}
		return nil
	}
	p := rig.Dial()
	first1 := "BDAT 8\r\nT1-chunk"
	if c.Abort == "EARLYFAIL" {
		first1 = "BDAT 40\r\nT1-chunk that is never read to its end!!"
	}
	p.SendStr(c.Mode.hello() + "\r\nMAIL FROM:<s1@x.test>\r\nRCPT TO:<r1@x.test>\r\n" + first1)
	head, err := expect(p, 5)
	if err != nil || (head[4].Code != 250 && c.Abort != "EARLYFAIL") {
		gate.OpenAll()
		p.Close()
		rig.Finish()
		if isWatchdog(err) {
			ctx.Inconclusive("C04 overlap preamble watchdog")
			return
		}
		ctx.Violate("C04:overlap-preamble", fmt.Sprintf("preamble failed: %v %s", err, codes(head)), c, witness(rig.Log, head))
		return
	}
	if c.Abort != "EARLYFAIL" {
		gate.WaitParked("d1")
	}
	abort := "RSET"
	if c.Abort == "HELLO" {
		abort = c.Mode.hello()
	}
	if c.Abort == "EARLYFAIL" {
		abort = "NOOP" // the failed chunk already ended transaction 1
	}
	first, second := "BDAT 8\r\nT2-chunk", "BDAT 6 LAST\r\nT2-end"
	if c.T2 == "data" {
		first, second = "DATA\r\n", "T2-body\r\n.\r\n"
	}
	p.SendStr(abort + "\r\nMAIL FROM:<s2@x.test>\r\nRCPT TO:<r2@x.test>\r\n" + first)
	for _, a := range c.Order {
		rig.Log.Act(a)
		switch a {
		case "G1":
			gate.Open("d1")
		case "G2":
			gate.Open("d2")
		case "S2":
			p.SendStr(second)
		}
	}
	p.SendStr("QUIT\r\n")
	tail, err := p.ReadAll()
	gate.OpenAll()
	p.Close()
	fin := rig.Finish()
	ends := waitDataEnds(rig.Log)
	if isWatchdog(err) || !fin || !ends {
		ctx.Inconclusive(fmt.Sprintf("C04 overlap watchdog %v", c.Order))
		return
	}
	ctx.Add("replies_parsed", int64(len(head)+len(tail)))
	ctx.Add("backend_events", countBackendEvents(rig.Log.Events()))
	fail := func(sig, msg string) {
		ctx.Violate(sig, msg+fmt.Sprintf(" [order=%v abort=%s t2=%s v1=%s v2=%s mode=%s]", c.Order, c.Abort, c.T2, c.V1, c.V2, c.Mode), c, witness(rig.Log, append(head, tail...)))
	}
	// abort, MAIL, RCPT, first, final, QUIT
	if len(tail) != 6 {
		fail("C04:overlap-reply-count", fmt.Sprintf("expected 6 replies after the abort (abort, MAIL, RCPT, first part, final, QUIT), got %d: %s", len(tail), codes(tail)))
		return
	}
	fin2 := tail[4]
	txt := fin2.Text()
	if strings.Contains(txt, "v#T1") || strings.Contains(txt, "transmission aborted") {
		fail("C04:stale-delivery-result", fmt.Sprintf("the final reply for message 2 reports the aborted message 1: %s", fin2))
		return
	}
	if c.V2 == "accept" && fin2.Class() != 2 {
		fail("C04:stale-delivery-result", fmt.Sprintf("the backend accepted message 2 but the final reply is %s", fin2))
		return
	}
	if c.V2 == "reject" && (fin2.Class() == 2 || !strings.Contains(txt, "v#T2")) {
		fail("C04:attribution:overlap", fmt.Sprintf("the backend rejected message 2 with token v#T2 but the final reply is %s", fin2))
		return
	}
	if tail[5].Code != 221 {
		fail("C04:overlap-reply-order", fmt.Sprintf("replies out of order: %s", codes(tail)))
		return
	}
	for _, r := range tail {
		if len(r.Faults) > 0 {
			fail("C04:reply-syntax", fmt.Sprintf("reply %s: %v", r, r.Faults))
		}
	}
	cls := "overlap/" + c.T2
	if ctx.WantSample(cls) {
		ctx.Sample(cls, map[string]any{"order": c.Order, "abort": c.Abort, "t2": c.T2, "v1": c.V1, "v2": c.V2, "mode": c.Mode, "replies": replyStrings(tail)})
	}
}

func c04Echo(ctx *core.Ctx, c c04Case) {
	ctx.Eval(fmt.Sprintf("echo|%s|%d", c.Site, c.Octet), true)
	rig := wire.NewRig(rec.Auth, func(s *smtp.Server) { s.AllowInsecureAuth = true })
	histHooks(rig)
	p := rig.Dial()
	o := string([]byte{byte(c.Octet)})
	var lines []string
	switch c.Site {
	case "EHLO-domain":
		lines = []string{"EHLO a" + o + "b.test"}
	case "HELO-domain":
		lines = []string{"HELO a" + o + "b.test"}
	case "unknown-verb":
		lines = []string{"EHLO c.test", "XY" + o + "Z arg"}
	case "MAIL-address":
		lines = []string{"EHLO c.test", "MAIL FROM:<a" + o + "b@x.test>"}
	case "RCPT-address":
		lines = []string{"EHLO c.test", "MAIL FROM:<s@x.test>", "RCPT TO:<r@x" + o + "y.test>"}
	case "MAIL-param":
		lines = []string{"EHLO c.test", "MAIL FROM:<s@x.test> FO" + o + "O=1"}
	case "VRFY-arg":
		lines = []string{"EHLO c.test", "VRFY us" + o + "er"}
	case "AUTH-mech":
		lines = []string{"EHLO c.test", "AUTH PL" + o + "AIN"}
	}
	var all []wire.Reply
	g, _ := p.ReadReply()
	all = append(all, g)
	for _, l := range lines {
		p.SendStr(l + "\r\n")
		rs, err := p.ReadUntilStall()
		all = append(all, rs...)
		if err != nil {
			break
		}
	}
	p.SendStr("QUIT\r\n")
	rs, err := p.ReadAll()
	all = append(all, rs...)
	p.Close()
	if !rig.Finish() || isWatchdog(err) {
		ctx.Inconclusive("C04 echo watchdog")
		return
	}
	ctx.Add("replies_parsed", int64(len(all)))
	for _, r := range all {
		for _, f := range r.Faults {
			if strings.HasPrefix(f, "text:") {
				ctx.Violate("C04:reply-text-control-octet:echo="+c.Site, fmt.Sprintf("octet 0x%02X sent at the %s echo site comes back inside reply text: %q (%s)", c.Octet, c.Site, r.Raw, f), c, witness(rig.Log, all))
			} else {
				ctx.Violate("C04:reply-syntax", fmt.Sprintf("reply %q: %s [echo site %s octet 0x%02X]", r.Raw, f, c.Site, c.Octet), c, witness(rig.Log, all))
			}
			return
		}
	}
	if ctx.WantSample("echo/" + c.Site) {
		ctx.Sample("echo/"+c.Site, map[string]any{"site": c.Site, "octet": c.Octet, "replies": replyStrings(all)})
	}
}
