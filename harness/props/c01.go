package props

import (
	"encoding/json"
	"fmt"
	"io"
	"strings"

	smtp "github.com/emersion/go-smtp"

	"verifharness/core"
	"verifharness/rec"
	"verifharness/ref"
	"verifharness/wire"
)

// C01 — DATA body reaches the backend byte-exact after dot-unstuffing.

type c01Case struct {
	Stream  []byte  `json:"stream"` // octets sent after the 354, end marker included
	StreamQ string  `json:"stream_q"`
	Cuts    []int   `json:"cuts"` // cut offsets into Stream+"NOOP\r\n"
	Plan    []int   `json:"plan"` // backend read-buffer sizes (cyclic)
	Mode    srvMode `json:"mode"`
	Glue    bool    `json:"glue"`  // first body segment shares a segment with the DATA command
	Prior   string  `json:"prior"` // what happened on the connection before: "" | data | bdat | data+starttls | starttls
	Early   bool    `json:"early"` // LMTP per-recipient backend sets the recipient's status before reading the message
}

func init() {
	register(&Prop{ID: "C01", Run: c01Run, Replay: func(ctx *core.Ctx, raw json.RawMessage) error {
		return core.ReplayCase(ctx, raw, c01Exec)
	}})
}

var c01Plans = [][]int{{1}, {2}, {3}, {5}, {4096}}

func c01Nontrivial(s []byte) bool {
	for i, b := range s {
		switch b {
		case '.':
			if i == 0 || (i >= 2 && s[i-1] == '\n' && s[i-2] == '\r') {
				return true
			}
		case '\r':
			if i+1 >= len(s) || s[i+1] != '\n' {
				return true
			}
		case '\n':
			if i == 0 || s[i-1] != '\r' {
				return true
			}
		}
	}
	return false
}

// c01Streams appends terminators to S and truncates at the first end marker.
func c01Streams(S []byte) [][]byte {
	var out [][]byte
	add := func(term string) {
		st := append(append([]byte{}, S...), term...)
		_, n, ok := ref.Unstuff(st)
		if !ok {
			return
		}
		out = append(out, st[:n])
	}
	add("\r\n.\r\n")
	if len(S) == 0 || (len(S) >= 2 && S[len(S)-2] == '\r' && S[len(S)-1] == '\n') {
		add(".\r\n")
	}
	return out
}

func c01Run(ctx *core.Ctx) {
	maxLen, nRand, nCutSeeded := 6, 12000, 6
	allCutsUpTo := 0
	if ctx.Thorough() {
		maxLen, nRand, nCutSeeded = 8, 150000, 12
		allCutsUpTo = 11
	}
	ctx.Rule = fmt.Sprintf("streams S+terminator with S exhaustive over the byte classes {'.',CR,LF,'x'} up to length %d, plus %d seeded streams over all 256 octets (length<=96) long-line streams, and streams of 2500 and 6100 octets made of short lines ending in bare LF / bare CR with no CRLF before the terminator; each with several segmentations (one segment, octet-by-octet, single cuts, seeded cuttings%s) and backend read-buffer plans {1,2,3,5,4096,seeded}; SMTP and (1 in 10) LMTP with both backend kinds. Non-trivial: S has a '.' at a line start, a bare CR or a bare LF; distinct by (stream, cuts, plan, mode).", maxLen, nRand, map[bool]string{true: fmt.Sprintf(", all 2^(n-1) cuttings for streams up to %d octets", allCutsUpTo), false: ""}[allCutsUpTo > 0])
	ctx.Exhaustive = false
	ctx.Assumptions = []string{
		"reference = RFC 5321 4.5.2 as a CRLF line splitter (ref.Unstuff)",
		"streams whose LF-free run exceeds MaxLineLength are not generated (C19's subject)",
		"in-memory segment-preserving transport; Read returns at most one written segment",
	}
	core.RunCases(ctx, func(emit func(c01Case)) {
		idx := uint64(0)
		gen := func(S []byte) {
			for _, st := range c01Streams(S) {
				idx++
				full := len(st) + 6
				r := core.NewRand(ctx.Seed, 1, idx)
				mode := modeSMTP
				if idx%10 == 3 {
					mode = modeLMTP
				} else if idx%10 == 7 {
					mode = modeLMTPRcpt
				}
				var cuttings [][]int
				if allCutsUpTo > 0 && len(st) <= allCutsUpTo {
					for m := uint64(0); m < 1<<uint(len(st)-1); m++ {
						cuttings = append(cuttings, core.Cuts(len(st), m))
					}
				} else {
					cuttings = append(cuttings, nil)
					all := make([]int, 0, full)
					for i := 1; i < full; i++ {
						all = append(all, i)
					}
					cuttings = append(cuttings, all)
					if ctx.Thorough() {
						for i := 1; i < full; i++ {
							cuttings = append(cuttings, []int{i})
						}
					} else {
						cuttings = append(cuttings, []int{1 + int(idx)%(full-1)}, []int{1 + int(idx/7)%(full-1)})
					}
					for k := 0; k < nCutSeeded; k++ {
						var cs []int
						for i := 1; i < full; i++ {
							if r.Chance(1, 3) {
								cs = append(cs, i)
							}
						}
						cuttings = append(cuttings, cs)
					}
				}
				for ci, cuts := range cuttings {
					var plans [][]int
					if ctx.Thorough() && len(st) <= 9 {
						plans = append(plans, c01Plans...)
					} else {
						plans = append(plans, c01Plans[(int(idx)+ci)%len(c01Plans)], c01Plans[(int(idx)+ci+2)%len(c01Plans)])
					}
					plans = append(plans, []int{1 + r.Intn(4), 1 + r.Intn(7), 1 + r.Intn(2)})
					for pi, plan := range plans {
						cs := c01Case{Stream: st, StreamQ: fmt.Sprintf("%q", st), Cuts: cuts, Plan: plan, Mode: mode,
							Glue: (int(idx)+ci+pi)%5 == 0}
						if (int(idx)+ci+pi)%8 == 1 {
							cs.Prior = []string{"data", "bdat", "data+starttls", "starttls"}[(int(idx)/8+ci+pi)%4]
							cs.Glue = false
						}
						cs.Early = mode == modeLMTPRcpt && (int(idx)+ci+pi)%2 == 0
						emit(cs)
					}
				}
			}
		}
		alpha := []string{".", "\r", "\n", "x"}
		core.Strings(alpha, maxLen, func(parts []string) {
			var S []byte
			for _, p := range parts {
				S = append(S, p...)
			}
			gen(S)
		})
		// seeded streams over all 256 octets, '.', CR, LF boosted
		for i := 0; i < nRand; i++ {
			r := core.NewRand(ctx.Seed, 2, uint64(i))
			n := r.Intn(97)
			S := make([]byte, n)
			for j := range S {
				switch r.Intn(10) {
				case 0, 1:
					S[j] = '.'
				case 2, 3:
					S[j] = '\r'
				case 4, 5:
					S[j] = '\n'
				case 6:
					S[j] = "\x00\xff\x80 x\t"[r.Intn(6)]
				default:
					S[j] = byte(r.Intn(256))
				}
			}
			// frequently glue CRLF pairs to make line structure
			for j := 0; j+1 < n; j++ {
				if S[j] == '\r' && r.Chance(1, 2) {
					S[j+1] = '\n'
				}
			}
			gen(S)
		}
		// long LF-free runs below the default limit (2000)
		for _, n := range []int{1000, 1900} {
			for _, pre := range []string{"", ".", "..", "\r", ".\r"} {
				S := []byte(pre)
				for k := 0; k < n; k++ {
					S = append(S, 'y')
				}
				gen(S)
			}
		}
		// long runs without any CRLF made of short lines that end in a bare LF (or a bare CR):
		// far more octets than the line limit between two CRLFs, yet no line is long
		for _, n := range []int{2500, 6100} {
			for _, eol := range []string{"\n", "\n.", "\r", "\n\r"} {
				var S []byte
				for k := 0; len(S) < n; k++ {
					S = append(S, strings.Repeat("z", 10+(k*7)%60)...)
					S = append(S, eol...)
				}
				if eol == "\r" {
					S = append(S, '\n') // (a bare-CR-only run would be an over-long LF-free run: close it once with LF)
					S = S[:0]
					for k := 0; len(S) < n; k++ {
						S = append(S, strings.Repeat("z", 10+(k*7)%60)...)
						if k%3 == 2 {
							S = append(S, '\n')
						} else {
							S = append(S, '\r')
						}
					}
				}
				gen(S)
			}
		}
	}, c01Exec)
}

func c01Exec(ctx *core.Ctx, c c01Case) {
	want, consumed, complete := ref.Unstuff(c.Stream)
	if !complete || consumed != len(c.Stream) {
		ctx.Broken(fmt.Sprintf("C01 generator produced a stream that is not exactly one message: %q", c.Stream))
		return
	}
	key := fmt.Sprintf("%q|%v|%v|%s|%v|%s|%v", c.Stream, c.Cuts, c.Plan, c.Mode, c.Glue, c.Prior, c.Early)
	ctx.Eval(key, c01Nontrivial(c.Stream[:len(c.Stream)-3]))

	rig := newRig(c.Mode, func(s *smtp.Server) {
		if strings.Contains(c.Prior, "starttls") {
			s.TLSConfig = wire.ServerTLS()
		}
	})
	serverKnobs(rig, key)
	probed := false
	probeN, probeErr := 0, error(nil)
	nData := 0
	rig.BE.H.Data = func(sess int, r *rec.Reader, st smtp.StatusCollector) error {
		nData++
		if (c.Prior == "data" || c.Prior == "bdat" || c.Prior == "data+starttls") && nData == 1 {
			r.ReadAll(64) // the earlier message on this connection
			return nil
		}
		if c.Early && st != nil {
			st.SetStatus("r@x.test", nil)
		}
		r.ReadPlan(c.Plan)
		if r.Term == io.EOF {
			probed = true
			probeN, probeErr = r.ProbeAfterTerm()
		}
		return nil
	}
	p := rig.Dial()
	nPrior := 0
	if c.Prior != "" {
		// history on the same connection before the message under test
		var script string
		switch c.Prior {
		case "data", "data+starttls":
			script = c.Mode.hello() + "\r\nMAIL FROM:<s0@x.test>\r\nRCPT TO:<r@x.test>\r\nDATA\r\nearlier message\r\n.\r\n"
			nPrior = 6
		case "bdat":
			script = c.Mode.hello() + "\r\nMAIL FROM:<s0@x.test>\r\nRCPT TO:<r@x.test>\r\nBDAT 9 LAST\r\nearlier\r\n"
			nPrior = 5
		case "starttls":
			script = c.Mode.hello() + "\r\n"
			nPrior = 2
		}
		p.SendStr(script)
		if _, err := expect(p, nPrior); err != nil {
			p.Close()
			rig.Finish()
			ctx.Inconclusive("C01 prior history failed")
			return
		}
		if strings.Contains(c.Prior, "starttls") {
			r, err := p.Cmd("STARTTLS")
			if err != nil || r.Code != 220 || p.StartTLSClient() != nil {
				p.Close()
				rig.Finish()
				ctx.Inconclusive("C01 STARTTLS in prior history failed")
				return
			}
			p.Raw.WaitPeerIdle(wire.Watchdog)
		}
	}
	pre := []byte(c.Mode.hello() + "\r\nMAIL FROM:<s@x.test>\r\nRCPT TO:<r@x.test>\r\nDATA\r\n")
	if c.Prior != "" && !strings.Contains(c.Prior, "starttls") {
		// the greeting was already sent with the prior history: expect one reply fewer below
		pre = []byte("RSET\r\nMAIL FROM:<s@x.test>\r\nRCPT TO:<r@x.test>\r\nDATA\r\n")
	}
	full := append(append([]byte{}, c.Stream...), "NOOP\r\n"...)
	segs := core.Split(full, c.Cuts)
	if c.Glue {
		p.Send(append(pre, segs[0]...))
		segs = segs[1:]
	} else {
		p.Send(pre)
	}
	nHead := 5
	if c.Prior != "" {
		nHead = 4 // no connection greeting this time
	}
	head, err := expect(p, nHead)
	if err != nil || head[len(head)-1].Code != 354 {
		p.Close()
		rig.Finish()
		if isWatchdog(err) {
			ctx.Inconclusive("C01 preamble: watchdog")
			return
		}
		ctx.Violate("C01:preamble", fmt.Sprintf("preamble did not reach 354: err=%v codes=%s", err, codes(head)), c, witness(rig.Log, head))
		return
	}
	p.SendSegs(segs)
	p.SendStr("QUIT\r\n")
	tail, err := p.ReadAll()
	p.Close()
	fin := rig.Finish()
	if isWatchdog(err) || !fin {
		ctx.Inconclusive(fmt.Sprintf("C01 watchdog stream=%q", c.Stream))
		return
	}
	ev := rig.Log.Events()
	ctx.Add("backend_events", countBackendEvents(ev))
	ctx.Add("replies_parsed", int64(len(head)+len(tail)))
	des := dataEnds(ev)
	if (c.Prior == "data" || c.Prior == "bdat" || c.Prior == "data+starttls") && len(des) >= 1 {
		des = des[1:] // the earlier message
	}
	fail := func(sig, msg string) {
		ctx.Violate(sig, msg+fmt.Sprintf(" [stream=%q cuts=%v plan=%v mode=%s glue=%v prior=%q early=%v]", c.Stream, c.Cuts, c.Plan, c.Mode, c.Glue, c.Prior, c.Early), c, witness(rig.Log, append(head, tail...)))
	}
	if len(des) != 1 {
		fail("C01:data-calls", fmt.Sprintf("expected exactly one Data call, saw %d", len(des)))
		return
	}
	d := des[0]
	ctx.Add("octets_compared", int64(len(want)))
	if d.A != string(want) {
		fail("C01:octets-differ", fmt.Sprintf("backend read %q, reference %q", d.A, want))
		return
	}
	if d.B != "EOF" {
		fail("C01:terminal-error", fmt.Sprintf("reader ended with %q, expected EOF", d.B))
		return
	}
	if !probed || probeN != 0 || probeErr != io.EOF {
		fail("C01:eof-not-sticky", fmt.Sprintf("Read after EOF returned (%d, %v)", probeN, probeErr))
		return
	}
	if isStalled(err) {
		fail("C01:replies", fmt.Sprintf("server stopped replying; got %s after the message", codes(tail)))
		return
	}
	if codes(tail) != "250,250,221" {
		fail("C01:replies", fmt.Sprintf("after the 354 expected 250 (final), 250 (NOOP), 221 (QUIT); got %s", codes(tail)))
		return
	}
	for _, r := range append(head, tail...) {
		if len(r.Faults) > 0 {
			fail("C01:reply-syntax", fmt.Sprintf("malformed reply %s: %v", r, r.Faults))
			return
		}
	}
	if ctx.WantSample(string(c.Mode)) {
		ctx.Sample(string(c.Mode), map[string]any{"stream": fmt.Sprintf("%q", c.Stream), "cuts": c.Cuts, "plan": c.Plan, "backend_read": fmt.Sprintf("%q", d.A), "reads": d.N, "term": d.B, "replies": codes(tail)})
	}
}
