package props

import (
	"bytes"
	"encoding/json"
	"fmt"
	"io"
	"strings"
	"time"

	smtp "github.com/emersion/go-smtp"

	"verifharness/core"
	"verifharness/rec"
	"verifharness/wire"
)

// C05 — BDAT chunks are framed by octet count and delivered binary-transparent.

type c05Case struct {
	Msg       []byte  `json:"msg"`
	MsgQ      string  `json:"msg_q"`
	Chunks    []int   `json:"chunks"`     // payload sizes, in order (sum == len(Msg)); zero allowed
	ExtraLast bool    `json:"extra_last"` // LAST comes as a separate "BDAT 0 LAST" after the chunks
	Seg       string  `json:"seg"`        // glued | split | one | cuts
	Cuts      []int   `json:"cuts"`
	Mode      srvMode `json:"mode"`
	Refuse    string  `json:"refuse"` // "", nomail, norcpt, badlast, threeargs, overlimit
	LineLimit int     `json:"line_limit"`
	Noop      bool    `json:"noop"`       // NOOP marker after every chunk
	HugeAfter int     `json:"huge_after"` // a normal chunk of this many octets is accepted before the huge one (size limit 40)
	Huge      string  `json:"huge"`       // declared size of a BDAT whose octets can never all arrive (decimal string)
	NoLast    string  `json:"no_last"`    // "", QUIT, disconnect: no chunk carries LAST; the transfer is ended this way
	MarkEmpty bool    `json:"mark_empty"` // the marker after every chunk is an empty line (answered 5xx) instead of NOOP
	Pad       int     `json:"pad"`        // the chunk sizes are written with this many leading zeros (chunk-size = 1*DIGIT, decimal)
	EarlyNil  bool    `json:"early_nil"`  // with FailAfter: the backend returns nil (not an error) without having read the chunk
	FailAfter int     `json:"fail_after"` // > 0: the backend gives the message up after reading this many octets; the rest of the chunk (an LF-free binary run longer than the line limit) arrives in later segments
	StallAt   int     `json:"stall_at"`   // > 0: ReadTimeout is set and the read deadline is fired after this many payload octets; the peer then carries on
}

func init() {
	register(&Prop{ID: "C05", Run: c05Run, Replay: func(ctx *core.Ctx, raw json.RawMessage) error {
		return core.ReplayCase(ctx, raw, c05Exec)
	}})
}

var errEOFMarker = io.EOF

func lfFreeRun(b []byte) int {
	best, cur := 0, 0
	for _, ch := range b {
		if ch == '\n' {
			cur = 0
			continue
		}
		cur++
		if cur > best {
			best = cur
		}
	}
	return best
}

func repeatByte(b byte, n int) []byte { return bytes.Repeat([]byte{b}, n) }

func c05Run(ctx *core.Ctx) {
	ctx.Rule = "messages from a hostile payload corpus (CRLF.CRLF, command look-alikes, all 256 octet values, LF-free runs of 10/limit-1/limit/limit+1/3*limit) x all compositions of short messages into <=4 chunks incl. zero-size chunks and both LAST placements, seeded chunkings of longer ones x segmentation {command+payload glued, payload in own segment, whole transaction in one segment, seeded cuts} x refused BDATs {no MAIL, every RCPT rejected, bad LAST token, three arguments, over the size limit} carrying bait commands x {SMTP, LMTP}; chunks the backend gives up on after four octets while an LF-free binary remainder longer than the line limit is still on the wire; chunks (accepted, refused, over the limit; LAST or not) overtaken by the read timeout at four payload offsets (ReadTimeout set, virtual deadline fired) with the peer carrying on afterwards. Non-trivial: more than one chunk, or a zero-size chunk, or a refused BDAT; distinct by full case."
	ctx.Assumptions = []string{"BDAT with an unparsable size is not judged (octet count unknown)", "known finding C05:linelimit-readahead is matched only when a payload LF-free run shares a segment with its BDAT command line and the symptom is the 500 5.4.0 too-long-line close"}
	all256 := make([]byte, 256)
	for i := range all256 {
		all256[i] = byte(i)
	}
	short := [][]byte{
		[]byte("\r\n.\r\nQU"), []byte(".\r\n\r\n.\r"), []byte("QUIT\r\nab"), {0, 255, '\r', '\n', '.', 0x80, 'a', '\n'}, []byte("abcdefgh"), []byte("a\nb\rc.."),
		[]byte("abc"), []byte("\r\n"), {},
	}
	type longMsg struct {
		b     []byte
		limit int
	}
	var long []longMsg
	long = append(long, longMsg{append([]byte("Subject: x\r\n\r\nbody\r\n.\r\nMAIL FROM:<bait@x.test>\r\nQUIT\r\n"), all256...), 0})
	for _, run := range []int{10, 63, 64, 65, 192} {
		m := append([]byte("ab\r\n"), repeatByte('z', run)...)
		m = append(m, "\r\ntail"...)
		long = append(long, longMsg{m, 64})
		long = append(long, longMsg{repeatByte('q', run), 64})
	}
	long = append(long, longMsg{repeatByte('L', 2500), 0})
	nSeeded := 24
	if ctx.Thorough() {
		nSeeded = 25000
	}
	core.RunCases(ctx, func(emit func(c05Case)) {
		idx := 0
		modes := []srvMode{modeSMTP, modeLMTPRcpt, modeLMTP}
		segs := []string{"glued", "split", "one", "cuts"}
		mk := func(msg []byte, chunks []int, extra bool, seg string, mode srvMode, limit int, noop bool) {
			idx++
			c := c05Case{Msg: msg, MsgQ: fmt.Sprintf("%.80q", msg), Chunks: chunks, ExtraLast: extra, Seg: seg, Mode: mode, LineLimit: limit, Noop: noop}
			if idx%5 == 2 {
				c.Pad = 1 + idx%3
			}
			if nm := len(chunks) - 1; noop && idx%2 == 0 && (nm <= 2 || (nm == 3 && !extra)) {
				c.MarkEmpty = true // at most three of them: the error threshold is not reached
			}
			if seg == "cuts" {
				r := core.NewRand(ctx.Seed, 51, uint64(idx))
				n := len(msg) + 40*len(chunks) + 60
				for i := 1; i < n; i++ {
					if r.Chance(1, 9) {
						c.Cuts = append(c.Cuts, i)
					}
				}
			}
			emit(c)
		}
		combo := 0
		for mi, msg := range short {
			core.Compositions(len(msg), 4, func(parts []int) {
				for _, extra := range []bool{false, true} {
					combo++
					for si, seg := range segs {
						if !ctx.Thorough() && len(parts) > 3 && (combo+si)%2 == 0 {
							continue // quick: two of the four segmentations for four-part compositions, alternating
						}
						mk(msg, parts, extra, seg, modes[(combo+mi)%3], 0, combo%3 == 0)
					}
				}
			})
		}
		for li, lm := range long {
			for k := 0; k < nSeeded; k++ {
				r := core.NewRand(ctx.Seed, 52, uint64(li), uint64(k))
				var parts []int
				rem := len(lm.b)
				for rem > 0 && len(parts) < 6 {
					n := r.Intn(rem + 1)
					if r.Chance(1, 5) {
						n = 0
					}
					if len(parts) == 0 && k%3 == 0 {
						n = rem
					}
					parts = append(parts, n)
					rem -= n
				}
				if rem > 0 {
					parts = append(parts, rem)
				}
				for _, seg := range segs {
					mk(lm.b, parts, k%2 == 1, seg, modes[(k+li)%3], lm.limit, k%4 == 0)
				}
			}
		}
		// transfers that never get a LAST chunk: EOF must not be reported
		for mi, msg := range short[:6] {
			for _, parts := range [][]int{{len(msg)}, {3, len(msg) - 3}, {0, len(msg)}, {len(msg), 0}} {
				for _, end := range []string{"QUIT", "disconnect"} {
					for _, seg := range []string{"glued", "split"} {
						idx++
						emit(c05Case{Msg: msg, MsgQ: fmt.Sprintf("%.80q", msg), Chunks: parts, Seg: seg, Mode: modes[(idx+mi)%3], NoLast: end})
					}
				}
			}
		}
		// declared sizes that can never be satisfied (and that overflow naive integer handling)
		for _, hs := range []string{"2147483648", "4294967295", "4294967296", "9223372036854775807", "9223372036854775808", "18446744073709551516", "18446744073709551615", "18446744073709551616", "99999999999999999999999"} {
			for _, last := range []bool{true, false} {
				for _, mode := range modes {
					for _, lim := range []int{0, 64} {
						idx++
						emit(c05Case{Msg: []byte("RCPT TO:<bait-2@x.test>\r\nMAIL FROM:<bait-1@x.test>\r\n"), MsgQ: "bait", Chunks: []int{0}, Seg: []string{"glued", "split"}[idx%2], Mode: mode, Huge: hs, ExtraLast: last, LineLimit: lim})
					}
				}
			}
		}
		for _, hs := range []string{"9223372036854775807", "9223372036854775800", "9223372036854775777", "4611686018427387904", "4294967296"} {
			for _, after := range []int{1, 5, 30} {
				for _, mode := range modes {
					idx++
					emit(c05Case{Msg: []byte(strings.Repeat("payload-beyond-the-limit ", 8)), MsgQ: "200 octets", Chunks: []int{0}, Seg: []string{"glued", "split"}[idx%2], Mode: mode, Huge: hs, HugeAfter: after, LineLimit: 64})
				}
			}
		}
		// refused BDATs with bait payloads
		for _, refuse := range []string{"nomail", "norcpt", "badlast", "threeargs", "overlimit", "nogreeting"} {
			for _, mode := range modes {
				for _, seg := range segs {
					for _, pay := range [][]byte{
						[]byte("MAIL FROM:<bait-1@x.test>\r\nRCPT TO:<bait-2@x.test>\r\n"),
						[]byte("RCPT TO:<bait-2@x.test>\r\nQUIT\r\n"),
						[]byte("RSET\r\nMAIL FROM:<bait-1@x.test>\r\nRCPT TO:<bait-2@x.test>\r\nDATA\r\n"),
						append([]byte("RCPT TO:<bait-2@x.test>\r\n"), repeatByte('w', 70)...),
						{},
					} {
						for _, limit := range []int{0, 64} {
							if refuse == "overlimit" && len(pay) < 2 {
								continue // an empty chunk cannot be over the limit
							}
							idx++
							c := c05Case{Msg: pay, MsgQ: fmt.Sprintf("%.80q", pay), Chunks: []int{len(pay)}, Seg: seg, Mode: mode, Refuse: refuse, LineLimit: limit}
							if seg == "cuts" {
								r := core.NewRand(ctx.Seed, 53, uint64(idx))
								for i := 1; i < len(pay)+100; i++ {
									if r.Chance(1, 9) {
										c.Cuts = append(c.Cuts, i)
									}
								}
							}
							emit(c)
						}
					}
				}
			}
		}
		// a chunk overtaken by the read timeout: the rest of its payload arrives afterwards
		for _, pay := range []string{
			"xxxx\r\nMAIL FROM:<bait-1@x.test>\r\nRCPT TO:<bait-2@x.test>\r\n",
			"MAIL FROM:<bait-1@x.test>\r\nRCPT TO:<bait-2@x.test>\r\nBDAT 2 LAST\r\nzz",
			"y\r\nRSET\r\nMAIL FROM:<bait-1@x.test>\r\nRCPT TO:<bait-2@x.test>\r\nDATA\r\n",
		} {
			for _, at := range []int{1, 6, len(pay) / 2, len(pay) - 1} {
				for _, last := range []bool{false, true} {
					for _, refuse := range []string{"", "nomail", "overlimit"} {
						for _, mode := range modes {
							emit(c05Case{Msg: []byte(pay), MsgQ: fmt.Sprintf("%.80q", pay), Chunks: []int{len(pay)}, ExtraLast: last, Mode: mode, Refuse: refuse, StallAt: at})
						}
					}
				}
			}
		}
		// a chunk the backend gives up on early while most of it is still on the wire: the rest is
		// skipped by octet count, whatever it looks like
		for _, limit := range []int{0, 64} {
			for _, last := range []bool{false, true} {
				for _, mode := range modes {
					for _, nseg := range []int{1, 3} {
						n := 3000
						if limit == 64 {
							n = 400
						}
						pay := append([]byte("GIVEUP"), repeatByte(0xEE, n)...)
						pay = append(pay, "\r\nMAIL FROM:<bait-1@x.test>\r\n"...)
						emit(c05Case{Msg: pay, MsgQ: fmt.Sprintf("%.40q...", pay), Chunks: []int{len(pay)}, ExtraLast: last, Mode: mode, LineLimit: limit, FailAfter: 4, Pad: nseg})
						emit(c05Case{Msg: pay, MsgQ: fmt.Sprintf("%.40q...", pay), Chunks: []int{len(pay)}, ExtraLast: last, Mode: mode, LineLimit: limit, FailAfter: 4, Pad: nseg, EarlyNil: true})
					}
				}
			}
		}
	}, c05Exec)
}

func c05Exec(ctx *core.Ctx, c c05Case) {
	if c.FailAfter > 0 {
		c05FailedChunk(ctx, c)
		return
	}
	if c.StallAt > 0 {
		c05Stall(ctx, c)
		return
	}
	if c.Huge != "" {
		c05Huge(ctx, c)
		return
	}
	sum := 0
	for _, n := range c.Chunks {
		sum += n
	}
	if sum != len(c.Msg) {
		ctx.Broken("C05 case: chunk sizes do not add up")
		return
	}
	ctx.Eval(fmt.Sprintf("%q|%v|%v|%s|%v|%s|%s|%d|%v", c.Msg, c.Chunks, c.ExtraLast, c.Seg, c.Cuts, c.Mode, c.Refuse, c.LineLimit, c.Noop)+c.NoLast+fmt.Sprint("|", c.Pad, c.MarkEmpty),
		len(c.Chunks) > 1 || c.ExtraLast || c.Refuse != "" || (len(c.Chunks) == 1 && c.Chunks[0] == 0))

	limitBytes := int64(0)
	if c.Refuse == "overlimit" {
		limitBytes = int64(len(c.Msg)) - 1
		if limitBytes < 1 {
			limitBytes = 1
		}
	}
	rig := newRig(c.Mode, func(s *smtp.Server) {
		if c.LineLimit > 0 {
			s.MaxLineLength = c.LineLimit
		}
		s.MaxMessageBytes = limitBytes
	})
	serverKnobs(rig, fmt.Sprintf("%q|%v|%v|%s|%s|%s", c.Msg, c.Chunks, c.ExtraLast, c.Seg, c.Mode, c.Refuse))
	lineLimit := rig.Srv.MaxLineLength
	rig.BE.H.Rcpt = func(sess int, to string, o *smtp.RcptOptions) error {
		if strings.HasPrefix(to, "rej") {
			return &smtp.SMTPError{Code: 550, EnhancedCode: smtp.EnhancedCode{5, 1, 1}, Message: "v#9 no such user"}
		}
		return nil
	}
	rig.BE.H.Data = func(sess int, r *rec.Reader, st smtp.StatusCollector) error {
		r.ReadAll(300)
		return nil
	}
	p := rig.Dial()
	defer func() { p.Close() }()
	nrcpt := 1
	var pre string
	nPre := 0
	switch c.Refuse {
	case "nogreeting":
		// BDAT is the very first command of the connection: refused, and its chunk is still a chunk
		pre = ""
		nPre = 1
	case "nomail":
		pre = c.Mode.hello() + "\r\n"
		nPre = 2
	case "norcpt":
		pre = c.Mode.hello() + "\r\nMAIL FROM:<s@x.test>\r\nRCPT TO:<rej@x.test>\r\n"
		nPre = 4
	default:
		pre = c.Mode.hello() + "\r\nMAIL FROM:<s@x.test>\r\nRCPT TO:<r1@x.test>\r\n"
		nPre = 4
		if c.Mode.lmtp() {
			pre += "RCPT TO:<r2@x.test>\r\n"
			nrcpt = 2
			nPre = 5
		}
	}
	if pre != "" {
		p.SendStr(pre)
	}
	head, err := expect(p, nPre)
	finish := func() bool { p.Close(); return rig.Finish() }
	if err != nil {
		finish()
		if isWatchdog(err) {
			ctx.Inconclusive("C05 preamble watchdog")
			return
		}
		ctx.Violate("C05:preamble", fmt.Sprintf("preamble failed: %v %s", err, codes(head)), c, witness(rig.Log, head))
		return
	}

	// Build the transaction: commands, payloads, markers.
	type piece struct {
		cmd     string // BDAT command line ("" for a marker)
		payload []byte
		marker  string
		last    bool
	}
	var pieces []piece
	off := 0
	for i, n := range c.Chunks {
		last := i == len(c.Chunks)-1 && !c.ExtraLast && c.NoLast == ""
		cmd := fmt.Sprintf("BDAT %s%d", strings.Repeat("0", c.Pad), n)
		if last {
			cmd += " LAST"
		}
		switch c.Refuse {
		case "badlast":
			cmd = fmt.Sprintf("BDAT %d LAS", n)
		case "threeargs":
			cmd = fmt.Sprintf("BDAT %d LAST now", n)
		}
		pieces = append(pieces, piece{cmd: cmd + "\r\n", payload: c.Msg[off : off+n], last: last})
		off += n
		if c.Noop && !last {
			if c.MarkEmpty {
				pieces = append(pieces, piece{marker: "\r\n"})
			} else {
				pieces = append(pieces, piece{marker: "NOOP\r\n"})
			}
		}
	}
	if c.ExtraLast && c.Refuse == "" && c.NoLast == "" {
		pieces = append(pieces, piece{cmd: "BDAT 0 LAST\r\n", last: true})
	}
	refused := c.Refuse != ""
	if c.NoLast != "" {
		// no marker: the transfer stays open until it is abandoned
	} else if refused {
		pieces = append(pieces, piece{marker: "NOOP\r\n"})
	} else {
		pieces = append(pieces, piece{marker: "MAIL FROM:<marker@x.test>\r\n"})
	}

	// expected reply arity per piece
	arity := func(pc piece) int {
		if pc.cmd != "" && pc.last && !refused && c.Mode.lmtp() {
			return nrcpt
		}
		return 1
	}
	// read-ahead precondition of the known finding
	readahead := false
	notePre := func(seg []byte, payloadFrom int) {
		if payloadFrom < len(seg) && lfFreeRun(seg[payloadFrom:])+40 >= lineLimit {
			readahead = true
		}
	}

	var tail []wire.Reply
	lastCmdSeq := 0
	lockstep := c.Seg == "glued" || c.Seg == "split"
	var rerr error
	if lockstep {
		for _, pc := range pieces {
			if pc.last {
				lastCmdSeq = rig.Log.Act("sending LAST command")
			}
			if pc.cmd != "" {
				if c.Seg == "glued" {
					seg := append([]byte(pc.cmd), pc.payload...)
					notePre(seg, len(pc.cmd))
					p.Send(seg)
				} else {
					p.SendStr(pc.cmd)
					p.Send(pc.payload)
				}
			} else {
				p.SendStr(pc.marker)
			}
			rs, err := expect(p, arity(pc))
			tail = append(tail, rs...)
			if err != nil {
				rerr = err
				break
			}
		}
		if rerr == nil {
			if c.NoLast == "disconnect" {
				p.Close()
				rerr = errEOFMarker
			} else {
				p.SendStr("QUIT\r\n")
				rs, err := p.ReadAll()
				tail = append(tail, rs...)
				rerr = err
			}
		}
	} else {
		var full []byte
		type span struct{ cmdEnd, payEnd int }
		var spans []span
		for _, pc := range pieces {
			if pc.cmd != "" {
				full = append(full, pc.cmd...)
				ce := len(full)
				full = append(full, pc.payload...)
				spans = append(spans, span{ce, len(full)})
			} else {
				full = append(full, pc.marker...)
			}
		}
		var cuts []int
		if c.Seg == "cuts" {
			cuts = c.Cuts
		}
		segs := core.Split(full, cuts)
		pos := 0
		for _, sg := range segs {
			end := pos + len(sg)
			for _, sp := range spans {
				if sp.cmdEnd-1 >= pos && sp.cmdEnd-1 < end && sp.payEnd > sp.cmdEnd {
					pe := sp.payEnd
					if pe > end {
						pe = end
					}
					if sp.cmdEnd < pe && lfFreeRun(full[sp.cmdEnd:pe])+40 >= lineLimit {
						readahead = true
					}
				}
			}
			pos = end
		}
		lastCmdSeq = rig.Log.Act("sending whole transaction")
		p.SendSegs(segs)
		p.SendStr("QUIT\r\n")
		tail, rerr = p.ReadAll()
	}
	fin := finish()
	if !waitDataEnds(rig.Log) {
		fin = false
	}
	if isWatchdog(rerr) || !fin {
		ctx.Inconclusive(fmt.Sprintf("C05 watchdog msg=%.60q chunks=%v", c.Msg, c.Chunks))
		return
	}
	ev := rig.Log.Events()
	ctx.Add("backend_events", countBackendEvents(ev))
	ctx.Add("replies_parsed", int64(len(head)+len(tail)))
	fail := func(sig, msg string) {
		// the known read-ahead finding: symptom 500 5.4.0 + precondition
		if readahead {
			for _, r := range tail {
				if r.Code == 500 && strings.HasPrefix(r.Text(), "5.4.0") {
					sig = "C05:linelimit-readahead:payload-run-in-command-segment"
				}
			}
		}
		ctx.Violate(sig, msg+fmt.Sprintf(" [msg=%.100q chunks=%v extraLast=%v seg=%s cuts=%v mode=%s refuse=%q linelimit=%d noop=%v]", c.Msg, c.Chunks, c.ExtraLast, c.Seg, c.Cuts, c.Mode, c.Refuse, lineLimit, c.Noop), c, witness(rig.Log, append(head, tail...)))
	}
	// bait must never be executed
	for _, e := range ev {
		if e.Ph == "b" && (e.Kind == "Mail" || e.Kind == "Rcpt") && strings.HasPrefix(e.A, "bait") {
			why := "accepted"
			if refused {
				why = "refused:" + c.Refuse
			}
			fail("C05:payload-executed:"+why, fmt.Sprintf("chunk payload was executed as a command: %s(%q)", e.Kind, e.A))
			return
		}
	}
	if c.NoLast != "" {
		des := dataEnds(ev)
		if len(des) > 1 {
			fail("C05:data-calls", fmt.Sprintf("expected at most one Data call, saw %d", len(des)))
			return
		}
		for _, d := range des {
			if d.B == "EOF" || d.B == "" {
				fail("C05:eof-without-last", fmt.Sprintf("no chunk carried LAST (transfer ended by %s) but the backend's reader ended with %q after %d octets", c.NoLast, d.B, len(d.A)))
				return
			}
			if !bytes.HasPrefix(c.Msg, []byte(d.A)) {
				fail("C05:octets-differ", fmt.Sprintf("backend read %.200q, sent %.200q", d.A, c.Msg))
				return
			}
		}
		if ctx.WantSample("nolast/" + c.NoLast) {
			ctx.Sample("nolast/"+c.NoLast, map[string]any{"msg": fmt.Sprintf("%.60q", c.Msg), "chunks": c.Chunks, "ended_by": c.NoLast, "replies": codes(tail)})
		}
		return
	}
	// expected replies
	var wantCodes []string
	for _, pc := range pieces {
		for k := 0; k < arity(pc); k++ {
			if (refused && pc.cmd != "") || pc.marker == "\r\n" {
				wantCodes = append(wantCodes, "5xx")
			} else {
				wantCodes = append(wantCodes, "250")
			}
		}
	}
	wantCodes = append(wantCodes, "221")
	gotOK := len(tail) == len(wantCodes)
	if gotOK {
		for i, w := range wantCodes {
			switch w {
			case "5xx":
				if tail[i].Class() != 5 {
					gotOK = false
				}
			default:
				if fmt.Sprint(tail[i].Code) != w {
					gotOK = false
				}
			}
		}
	}
	if !gotOK || isStalled(rerr) {
		sig := "C05:replies"
		if refused {
			sig = "C05:replies:refused:" + c.Refuse
		}
		fail(sig, fmt.Sprintf("expected replies %v, got %s (read ended: %v)", wantCodes, codes(tail), rerr))
		return
	}
	des := dataEnds(ev)
	if refused {
		if len(des) != 0 && c.Refuse != "overlimit" {
			fail("C05:data-call-on-refused", "a refused BDAT reached the backend")
		}
		if c.Refuse == "overlimit" {
			for _, d := range des {
				if int64(len(d.A)) > limitBytes {
					fail("C05:overlimit-delivered", "backend received more than the size limit")
				}
			}
		}
	} else {
		if len(des) != 1 {
			fail("C05:data-calls", fmt.Sprintf("expected exactly one Data call, saw %d", len(des)))
			return
		}
		d := des[0]
		ctx.Add("octets_compared", int64(len(c.Msg)))
		if d.A != string(c.Msg) {
			fail("C05:octets-differ", fmt.Sprintf("backend read %.200q, sent %.200q", d.A, c.Msg))
			return
		}
		if d.B != "EOF" {
			fail("C05:terminal-error", fmt.Sprintf("reader ended with %q, expected EOF", d.B))
			return
		}
		if d.Seq < lastCmdSeq {
			fail("C05:eof-before-last", "the backend's Data call ended before the LAST chunk was sent")
			return
		}
		// marker executed in place
		lastMail := ""
		for _, e := range ev {
			if e.Kind == "Mail" && e.Ph == "b" {
				lastMail = e.A
			}
		}
		if lastMail != "marker@x.test" {
			fail("C05:resync", fmt.Sprintf("the MAIL following the LAST chunk was not executed in place (last Mail callback: %q)", lastMail))
			return
		}
	}
	for _, r := range tail {
		if len(r.Faults) > 0 {
			fail("C05:reply-syntax", fmt.Sprintf("malformed reply %s: %v", r, r.Faults))
			return
		}
	}
	cls := fmt.Sprintf("%s/%s/%s", c.Mode, c.Seg, c.Refuse)
	if ctx.WantSample(cls) {
		ctx.Sample(cls, map[string]any{"msg": fmt.Sprintf("%.60q", c.Msg), "chunks": c.Chunks, "extra_last": c.ExtraLast, "seg": c.Seg, "refuse": c.Refuse, "replies": codes(tail), "data_calls": len(des)})
	}
}

// c05Huge: a BDAT whose declared size can never be satisfied. Whatever the server makes of the
// number, it must not acknowledge the chunk, must not report the message complete and must
// not execute the octets that follow as commands.
func c05Huge(ctx *core.Ctx, c c05Case) {
	ctx.Eval(fmt.Sprintf("huge|%s|%v|%s|%s|%d|%d", c.Huge, c.ExtraLast, c.Seg, c.Mode, c.LineLimit, c.HugeAfter), true)
	rig := newRig(c.Mode, func(s *smtp.Server) {
		if c.LineLimit > 0 {
			s.MaxMessageBytes = 1000
		}
		if c.HugeAfter > 0 {
			s.MaxMessageBytes = 40
		}
	})
	rig.BE.H.Data = func(sess int, r *rec.Reader, st smtp.StatusCollector) error {
		err := r.ReadAll(300)
		if err != nil && err.Error() == "EOF" {
			return nil
		}
		return err
	}
	p := rig.Dial()
	p.SendStr(c.Mode.hello() + "\r\nMAIL FROM:<s@x.test>\r\nRCPT TO:<r1@x.test>\r\n")
	head, err := expect(p, 4)
	if err != nil {
		p.Close()
		rig.Finish()
		ctx.Inconclusive("C05 huge preamble")
		return
	}
	if c.HugeAfter > 0 {
		p.SendStr(fmt.Sprintf("BDAT %d\r\n", c.HugeAfter))
		p.SendStr(strings.Repeat("a", c.HugeAfter))
		r, err := p.ReadReply()
		head = append(head, r)
		if err != nil || r.Code != 250 {
			p.Close()
			rig.Finish()
			ctx.Inconclusive("C05 huge: first chunk not accepted")
			return
		}
	}
	cmd := "BDAT " + c.Huge
	if c.ExtraLast {
		cmd += " LAST"
	}
	if c.Seg == "glued" {
		p.Send(append([]byte(cmd+"\r\n"), c.Msg...))
	} else {
		p.SendStr(cmd + "\r\n")
		p.Send(c.Msg)
	}
	p.Raw.CloseWrite()
	tail, rerr := p.ReadAll()
	p.Close()
	fin := rig.Finish()
	ends := waitDataEnds(rig.Log)
	if isWatchdog(rerr) || !fin || !ends {
		ctx.Inconclusive("C05 huge watchdog")
		return
	}
	ev := rig.Log.Events()
	ctx.Add("backend_events", countBackendEvents(ev))
	ctx.Add("replies_parsed", int64(len(head)+len(tail)))
	fail := func(sig, msg string) {
		ctx.Violate(sig, msg+fmt.Sprintf(" [BDAT %s last=%v seg=%s mode=%s limit=%v]", c.Huge, c.ExtraLast, c.Seg, c.Mode, c.LineLimit > 0), c, witness(rig.Log, append(head, tail...)))
	}
	// a size of 2^63 or more cannot be represented by any practical implementation: such a
	// BDAT counts as "unparsable size" (octet count unknown, nothing can be skipped), so only
	// the acknowledgement and completeness clauses are judged for it
	judgeBait := len(c.Huge) < 19 || (len(c.Huge) == 19 && c.Huge <= "9223372036854775807")
	for _, e := range ev {
		if judgeBait && e.Ph == "b" && (e.Kind == "Mail" || e.Kind == "Rcpt") && strings.HasPrefix(e.A, "bait") {
			fail(ctx.Prop+":payload-executed:huge-size", fmt.Sprintf("octets following a BDAT with declared size %s were executed as a command: %s(%q)", c.Huge, e.Kind, e.A))
			return
		}
	}
	for i, r := range tail {
		if !judgeBait && i > 0 {
			break // replies to whatever follows an unparsable size are not judged
		}
		if r.Class() == 2 {
			fail(ctx.Prop+":huge-size-acknowledged", fmt.Sprintf("a BDAT declaring %s octets, of which %d arrived, was answered %s", c.Huge, len(c.Msg), r))
			return
		}
	}
	for _, d := range dataEnds(ev) {
		if c.HugeAfter > 0 && len(d.A) > 40 {
			fail(ctx.Prop+":huge-size-bypasses-limit", fmt.Sprintf("with MaxMessageBytes=40 the backend read %d octets: a chunk of %d octets followed by one declaring %s octets", len(d.A), c.HugeAfter, c.Huge))
			return
		}
		if d.B == "EOF" || d.B == "" {
			fail(ctx.Prop+":huge-size-complete", fmt.Sprintf("the backend's reader ended with %q after %d octets for a BDAT declaring %s octets", d.B, len(d.A), c.Huge))
			return
		}
	}
	if ctx.WantSample("huge") {
		ctx.Sample("huge", map[string]any{"declared": c.Huge, "last": c.ExtraLast, "replies": codes(tail)})
	}
}

// c05Stall: the read timeout overtakes a chunk (accepted or refused) in the middle of its payload
// and the peer carries on sending. Whether the server gives the connection up or still skips the
// declared octets is its choice; the rest of the payload must not run as commands, and the
// backend must not be told that the message is complete.
func c05Stall(ctx *core.Ctx, c c05Case) {
	ctx.Eval(fmt.Sprintf("stall|%q|%d|%v|%s|%s", c.Msg, c.StallAt, c.ExtraLast, c.Refuse, c.Mode), true)
	rig := newRig(c.Mode, func(s *smtp.Server) {
		s.ReadTimeout = time.Hour // virtual clock: expires only when the harness fires it
		if c.Refuse == "overlimit" {
			s.MaxMessageBytes = 10
		}
	})
	rig.BE.H.Data = func(sess int, r *rec.Reader, st smtp.StatusCollector) error {
		err := r.ReadAll(300)
		if err != nil && err.Error() == "EOF" {
			return nil
		}
		return err
	}
	p := rig.Dial()
	pre := c.Mode.hello() + "\r\n"
	n := 2
	if c.Refuse != "nomail" {
		pre += "MAIL FROM:<s@x.test>\r\nRCPT TO:<r1@x.test>\r\n"
		n = 4
	}
	p.SendStr(pre)
	head, err := expect(p, n)
	if err != nil {
		p.Close()
		rig.Finish()
		ctx.Inconclusive("C05 stall preamble")
		return
	}
	cmd := fmt.Sprintf("BDAT %d", len(c.Msg))
	if c.ExtraLast {
		cmd += " LAST"
	}
	p.SendStr(cmd + "\r\n")
	p.Send(c.Msg[:c.StallAt])
	if idle, werr := p.Raw.WaitPeerIdle(wire.Watchdog); werr != nil || !idle {
		p.Close()
		rig.Finish()
		ctx.Inconclusive("C05 stall: the server did not go idle inside the chunk")
		return
	}
	fired := p.SrvEnd.FireReadDeadline()
	if fired {
		rig.Log.Act("read deadline fired inside the chunk")
		ctx.Add("read_deadlines_fired_inside_a_chunk", 1)
	}
	p.Send(c.Msg[c.StallAt:])
	p.SendStr("MAIL FROM:<marker-1@x.test>\r\nNOOP\r\nQUIT\r\n")
	p.Raw.CloseWrite()
	tail, rerr := p.ReadAll()
	p.Close()
	fin := rig.Finish()
	ends := waitDataEnds(rig.Log)
	if isWatchdog(rerr) || !fin || !ends {
		ctx.Inconclusive("C05 stall watchdog")
		return
	}
	ev := rig.Log.Events()
	ctx.Add("backend_events", countBackendEvents(ev))
	ctx.Add("replies_parsed", int64(len(head)+len(tail)))
	fail := func(sig, msg string) {
		ctx.Violate(sig, msg+fmt.Sprintf(" [payload=%q stall_at=%d last=%v refuse=%s mode=%s fired=%v]", c.Msg, c.StallAt, c.ExtraLast, c.Refuse, c.Mode, fired), c, witness(rig.Log, append(head, tail...)))
	}
	for _, e := range ev {
		if e.Ph == "b" && (e.Kind == "Mail" || e.Kind == "Rcpt") && strings.HasPrefix(e.A, "bait") {
			fail("C05:payload-executed:after-timeout", fmt.Sprintf("chunk payload that arrived after a read timeout was executed as a command: %s(%q)", e.Kind, e.A))
			return
		}
	}
	if fired {
		for _, d := range dataEnds(ev) {
			if d.B == "EOF" && d.A != string(c.Msg) {
				fail("C05:eof-after-timeout", fmt.Sprintf("the backend's reader ended in EOF after %d of %d octets of a chunk cut by the read timeout", len(d.A), len(c.Msg)))
				return
			}
		}
	}
	if ctx.WantSample("stall/" + c.Refuse) {
		ctx.Sample("stall/"+c.Refuse, map[string]any{"payload": fmt.Sprintf("%q", c.Msg), "stall_at": c.StallAt, "last": c.ExtraLast, "refuse": c.Refuse, "fired": fired, "replies": codes(tail)})
	}
}

// c05FailedChunk: the backend returns an error after a few octets of a chunk whose remainder
// (binary, no LF for longer than the line limit) is still on its way. The remainder is skipped by
// octet count: one (negative) reply for the BDAT, then the next command is executed in place.
func c05FailedChunk(ctx *core.Ctx, c c05Case) {
	if gaveUp("c05failedchunk") {
		ctx.Add("cases_skipped_after_an_established_hang", 1)
		return
	}
	ctx.Eval(fmt.Sprintf("failedchunk|%d|%v|%s|%d|%d|%v", len(c.Msg), c.ExtraLast, c.Mode, c.LineLimit, c.Pad, c.EarlyNil), true)
	rig := newRig(c.Mode, func(s *smtp.Server) {
		if c.LineLimit > 0 {
			s.MaxLineLength = c.LineLimit
		}
	})
	rig.BE.H.Data = func(sess int, r *rec.Reader, st smtp.StatusCollector) error {
		r.ReadN(c.FailAfter, c.FailAfter)
		if c.EarlyNil {
			return nil // a backend that does not care for the rest of the message
		}
		return &smtp.SMTPError{Code: 554, EnhancedCode: smtp.EnhancedCode{5, 6, 0}, Message: "v#giveup"}
	}
	p := rig.Dial()
	p.SendStr(c.Mode.hello() + "\r\nMAIL FROM:<s@x.test>\r\nRCPT TO:<r1@x.test>\r\n")
	head, err := expect(p, 4)
	if err != nil {
		p.Close()
		rig.Finish()
		ctx.Inconclusive("C05 failedchunk preamble")
		return
	}
	cmd := fmt.Sprintf("BDAT %d", len(c.Msg))
	if c.ExtraLast {
		cmd += " LAST"
	}
	p.SendStr(cmd + "\r\n")
	p.Send(c.Msg[:10])
	// the backend gives up; the server is now skipping the rest of the chunk
	p.Raw.WaitPeerIdle(wire.Watchdog)
	rest := c.Msg[10:]
	nseg := c.Pad // (number of segments the remainder is sent in)
	for i := 0; i < nseg; i++ {
		lo, hi := i*len(rest)/nseg, (i+1)*len(rest)/nseg
		p.Send(rest[lo:hi])
		p.Raw.WaitPeerIdle(wire.Watchdog)
	}
	p.SendStr("NOOP\r\nQUIT\r\n")
	p.Raw.CloseWrite()
	tail, rerr := p.ReadAll()
	p.Close()
	fin := rig.Finish()
	ends := waitDataEnds(rig.Log)
	if isWatchdog(rerr) || !fin || !ends {
		giveUp("c05failedchunk")
		if lines, blocked := c20Blocked(); isWatchdog(rerr) && blocked && len(lines) > 0 {
			// the peer has sent everything and waits; no library goroutine is runnable: the BDAT
			// will never be answered
			ctx.Violate("C05:no-reply:failed-chunk", fmt.Sprintf("the BDAT command is never answered: the handler is blocked although the whole chunk has been sent [backend returned nil early: %v last=%v mode=%s]", c.EarlyNil, c.ExtraLast, c.Mode), c, append(rig.Log.Strings(40), lines...))
			return
		}
		ctx.Inconclusive("C05 failedchunk watchdog")
		return
	}
	ev := rig.Log.Events()
	ctx.Add("backend_events", countBackendEvents(ev))
	ctx.Add("replies_parsed", int64(len(head)+len(tail)))
	fail := func(sig, msg string) {
		ctx.Violate(sig, msg+fmt.Sprintf(" [chunk=%d octets last=%v mode=%s linelimit=%d segments=%d]", len(c.Msg), c.ExtraLast, c.Mode, c.LineLimit, nseg), c, witness(rig.Log, append(head, tail...)))
	}
	for _, e := range ev {
		if e.Ph == "b" && (e.Kind == "Mail" || e.Kind == "Rcpt") && strings.HasPrefix(e.A, "bait") {
			fail("C05:payload-executed:failed-chunk", fmt.Sprintf("the rest of a chunk the backend had given up on was executed as a command: %s(%q)", e.Kind, e.A))
			return
		}
	}
	if len(tail) != 3 || (tail[0].Class() == 2 && !c.EarlyNil) || tail[1].Code != 250 || tail[2].Code != 221 {
		fail("C05:replies:failed-chunk", fmt.Sprintf("expected one reply for the BDAT (negative unless the backend returned nil), then 250 (NOOP) and 221 (QUIT); got %s (read ended: %v) [backend returned nil early: %v]", codes(tail), rerr, c.EarlyNil))
		return
	}
	if ctx.WantSample("failedchunk") {
		ctx.Sample("failedchunk", map[string]any{"chunk_octets": len(c.Msg), "last": c.ExtraLast, "mode": c.Mode, "line_limit": c.LineLimit, "replies": codes(tail)})
	}
}
