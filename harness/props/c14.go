package props

import (
	"encoding/json"
	"errors"
	"fmt"
	"sort"
	"strings"
	"time"
	"unicode/utf8"

	"github.com/emersion/go-sasl"
	smtp "github.com/emersion/go-smtp"

	"verifharness/core"
	"verifharness/rec"
	"verifharness/wire"
)

// C14 — envelope and options survive the client-to-server trip unchanged.

type c14Op struct {
	Kind string `json:"kind"` // mail | rcpt
	Addr string `json:"addr"`

	// MAIL
	Size    int64  `json:"size"`
	UTF8    bool   `json:"utf8"`
	ReqTLS  bool   `json:"reqtls"`
	Ret     string `json:"ret"`
	EnvID   string `json:"envid"`
	HasAuth bool   `json:"has_auth"`
	Auth    string `json:"auth"`

	// RCPT
	Notify    []string `json:"notify"`
	ORcptType string   `json:"orcpt_type"`
	ORcpt     string   `json:"orcpt"`
	RRVS      string   `json:"rrvs"` // RFC3339Nano, "" = unset

	// Judged says a refusal by the server counts as an encoding fault (the value is in the
	// stated domain and representable); otherwise only silent corruption is judged.
	Judged bool   `json:"judged"`
	Field  string `json:"field"` // which field this operation exercises
}

type c14Case struct {
	SMTPUTF8 bool    `json:"smtputf8"` // server advertises SMTPUTF8 (selects unitext vs xtext form)
	TLS      bool    `json:"tls"`
	Ops      []c14Op `json:"ops"`
}

func init() {
	register(&Prop{ID: "C14", Run: c14Run, Replay: func(ctx *core.Ctx, raw json.RawMessage) error {
		return core.ReplayCase(ctx, raw, c14Exec)
	}})
}

func c14Printable(s string) bool {
	for _, r := range s {
		if r < 0x20 || r == 0x7f {
			return false
		}
	}
	return s != "" && utf8.ValidString(s)
}

func c14ASCIIPrintable(s string) bool {
	for i := 0; i < len(s); i++ {
		if s[i] < 0x20 || s[i] > 0x7e {
			return false
		}
	}
	return s != ""
}

const atext = "abcdefghijklmnopqrstuvwxyzABCDEFGHIJKLMNOPQRSTUVWXYZ0123456789!#$%&'*+-/=?^_`{|}~."

// c14AuthJudged: the value is a mailbox whose local-part consists of atext / non-ASCII only.
func c14AuthJudged(v string) bool {
	i := strings.LastIndexByte(v, '@')
	if i <= 0 || i == len(v)-1 {
		return false
	}
	for _, r := range v[:i] {
		if r < 0x80 && !strings.ContainsRune(atext, r) {
			return false
		}
	}
	lp := v[:i]
	return utf8.ValidString(v) && !strings.HasPrefix(lp, ".") && !strings.HasSuffix(lp, ".")
}

func c14Run(ctx *core.Ctx) {
	stride := 61
	maxStr := 2
	if ctx.Thorough() {
		stride = 1
		maxStr = 4
	}
	ctx.Rule = fmt.Sprintf("real client <-> real server with DSN, RRVS, REQUIRETLS (under TLS), AUTH and +/-SMTPUTF8: every Unicode scalar value individually in ORCPT(utf-8) (all of U+0000-U+07FF, the boundaries of every UTF-8 length and hex-digit-count class, and every %d-th value above; both unitext and xtext forms), every 7-bit value in ENVID / ORCPT(rfc822) / AUTH local-part, all strings of length <=%d over {+,=,SP,\\,{,},x,A,2,DEL,e-acute,katakana,emoji} in every string option, all NOTIFY sets in several orders, RET, SIZE {0,1,2^31,2^32,2^40}, RRVS times with zones and sub-second parts, all 2^7 MAIL and 2^3 RCPT option-presence subsets. Non-trivial: the operation was accepted by the client API (no local error) and compared at the backend; distinct by (server form, operation).", stride, maxStr)
	ctx.Assumptions = []string{"MailOptions.Body is not judged (the client always sends BODY=8BITMIME)", "a server refusal counts as an encoding fault only for values in the stated domain (printable ASCII / non-ASCII text; mailbox-shaped for AUTH=)", "control characters are judged for silent corruption only"}
	core.RunCases(ctx, func(emit func(c14Case)) {
		batch := func(utf8srv, tls bool, ops []c14Op) {
			for len(ops) > 0 {
				n := 60
				if n > len(ops) {
					n = len(ops)
				}
				emit(c14Case{SMTPUTF8: utf8srv, TLS: tls, Ops: ops[:n]})
				ops = ops[n:]
			}
		}
		// (1) every scalar value in ORCPT utf-8
		var runes []rune
		for r := rune(0); r <= 0x7ff; r++ {
			runes = append(runes, r)
		}
		for _, b := range []rune{0x800, 0xfff, 0x1000, 0xd7ff, 0xe000, 0xfffd, 0xfffe, 0xffff, 0x10000, 0x1ffff, 0xfffff, 0x100000, 0x10fffe, 0x10ffff} {
			runes = append(runes, b, b-1, b+1)
		}
		for r := rune(0x800); r <= 0x10ffff; r += rune(stride) {
			runes = append(runes, r)
		}
		for _, srv := range []bool{true, false} {
			var ops []c14Op
			for _, r := range runes {
				if r >= 0xd800 && r <= 0xdfff || r > 0x10ffff || r < 0 {
					continue
				}
				v := "a" + string(r) + "b@x.test"
				ops = append(ops, c14Op{Kind: "rcpt", Addr: "r@x.test", ORcptType: "UTF-8", ORcpt: v, Judged: c14Printable(v), Field: "ORCPT-utf8"})
			}
			// long values: nothing in the client API limits the length of an envelope id, an
			// original recipient or an AUTH identity, so nothing on the way may either
			for _, n := range []int{64, 100, 101, 150, 400} {
				long := strings.Repeat("ab+ =", n/5+1)[:n]
				ops = append(ops, c14Op{Kind: "mail", Addr: "s@x.test", EnvID: long, Judged: true, Field: "ENVID-long"})
				ops = append(ops, c14Op{Kind: "rcpt", Addr: "r@x.test", ORcptType: "RFC822", ORcpt: long + "@x.test", Judged: true, Field: "ORCPT-rfc822-long"})
				ops = append(ops, c14Op{Kind: "mail", Addr: "s@x.test", HasAuth: true, Auth: strings.Repeat("a", n) + "@x.test", Judged: true, Field: "AUTH-long"})
			}
			batch(srv, false, ops)
		}
		// (2) every 7-bit value in ENVID / ORCPT rfc822 / AUTH local-part
		{
			var ops []c14Op
			for b := 0; b < 128; b++ {
				ch := string(rune(b))
				ops = append(ops, c14Op{Kind: "mail", Addr: "s@x.test", EnvID: "e" + ch + "v", Judged: c14ASCIIPrintable(ch), Field: "ENVID"})
				ops = append(ops, c14Op{Kind: "rcpt", Addr: "r@x.test", ORcptType: "RFC822", ORcpt: "o" + ch + "r@x.test", Judged: c14ASCIIPrintable(ch), Field: "ORCPT-rfc822"})
				av := "u" + ch + "v@x.test"
				ops = append(ops, c14Op{Kind: "mail", Addr: "s@x.test", HasAuth: true, Auth: av, Judged: c14AuthJudged(av), Field: "AUTH"})
			}
			batch(false, false, ops)
			batch(true, false, ops)
		}
		// (3) short strings over encoding-significant characters in every string option
		alpha := []string{"+", "=", " ", "\\", "{", "}", "x", "A", "2", "\x7f", "é", "ド", "😀"}
		for _, srv := range []bool{false, true} {
			var ops []c14Op
			core.Strings(alpha, maxStr, func(parts []string) {
				s := strings.Join(parts, "")
				if s == "" {
					return
				}
				ops = append(ops, c14Op{Kind: "mail", Addr: "s@x.test", EnvID: s, Judged: c14ASCIIPrintable(s), Field: "ENVID"})
				ops = append(ops, c14Op{Kind: "rcpt", Addr: "r@x.test", ORcptType: "RFC822", ORcpt: s + "@x.test", Judged: c14ASCIIPrintable(s), Field: "ORCPT-rfc822"})
				ops = append(ops, c14Op{Kind: "rcpt", Addr: "r@x.test", ORcptType: "UTF-8", ORcpt: s + "@x.test", Judged: c14Printable(s), Field: "ORCPT-utf8"})
				av := s + "@x.test"
				ops = append(ops, c14Op{Kind: "mail", Addr: "s@x.test", HasAuth: true, Auth: av, Judged: c14AuthJudged(av), Field: "AUTH"})
			})
			batch(srv, false, ops)
		}
		// (3b) Unicode white space at the edges of a value that is the last thing on the line
		for _, srv := range []bool{true, false} {
			var ops []c14Op
			for _, ws := range []string{"\u00a0", "\u0085", "\u2003", "\u3000", "\u1680", "\u2028", "\u205f", "\ufeff"} {
				for _, v := range []string{"end" + ws, ws + "start", ws, "mid" + ws + "dle", "two" + ws + ws} {
					ops = append(ops, c14Op{Kind: "rcpt", Addr: "r@x.test", ORcptType: "UTF-8", ORcpt: v + "@x.test", Judged: true, Field: "ORCPT-utf8-ws"})
					ops = append(ops, c14Op{Kind: "rcpt", Addr: "r@x.test", ORcptType: "UTF-8", ORcpt: "o@x.test" + ws, Judged: true, Field: "ORCPT-utf8-ws"})
					ops = append(ops, c14Op{Kind: "rcpt", Addr: "r@x.test", ORcptType: "UTF-8", ORcpt: "x@" + v, Judged: true, Field: "ORCPT-utf8-ws"})
					av := "user@dom" + ws
					ops = append(ops, c14Op{Kind: "mail", Addr: "s@x.test", HasAuth: true, Auth: av, Judged: false, Field: "AUTH-ws"})
				}
			}
			batch(srv, false, ops)
		}
		// (4) NOTIFY, RET, SIZE, RRVS, flags, option subsets
		{
			var ops []c14Op
			for _, n := range [][]string{{"NEVER"}, {"SUCCESS"}, {"FAILURE"}, {"DELAY"}, {"SUCCESS", "FAILURE"}, {"FAILURE", "SUCCESS"}, {"DELAY", "SUCCESS", "FAILURE"}, {"FAILURE", "DELAY"}, {"SUCCESS", "DELAY", "FAILURE"}} {
				ops = append(ops, c14Op{Kind: "rcpt", Addr: "r@x.test", Notify: n, Judged: true, Field: "NOTIFY"})
			}
			for _, r := range []string{"FULL", "HDRS"} {
				ops = append(ops, c14Op{Kind: "mail", Addr: "s@x.test", Ret: r, Judged: true, Field: "RET"})
			}
			for _, sz := range []int64{1, 1000, 1 << 31, 1<<32 - 1, 1 << 32, 1 << 40, 1<<62 + 5} {
				ops = append(ops, c14Op{Kind: "mail", Addr: "s@x.test", Size: sz, Judged: true, Field: "SIZE"})
			}
			for _, ts := range []string{"2014-04-03T23:01:00Z", "1997-02-12T20:45:50+05:00", "2038-01-19T03:14:08-08:00", "2020-02-29T12:00:00.987654321+02:00", "2001-09-09T01:46:40.5-11:30", "1970-01-01T00:00:01Z"} {
				ops = append(ops, c14Op{Kind: "rcpt", Addr: "r@x.test", RRVS: ts, Judged: true, Field: "RRVS"})
			}
			for m := 0; m < 128; m++ {
				o := c14Op{Kind: "mail", Addr: fmt.Sprintf("sub%d@x.test", m), Judged: true, Field: "MAIL-subset"}
				if m&1 != 0 {
					o.Size = 12345
				}
				if m&2 != 0 {
					o.UTF8 = true
				}
				if m&4 != 0 {
					o.ReqTLS = true
				}
				if m&8 != 0 {
					o.Ret = "HDRS"
				}
				if m&16 != 0 {
					o.EnvID = "env id+1"
				}
				if m&32 != 0 {
					o.HasAuth, o.Auth = true, "auth.user@x.test"
				}
				if m&64 != 0 {
					o.HasAuth, o.Auth = true, "" // AUTH=<>
				}
				ops = append(ops, o)
			}
			for m := 0; m < 8; m++ {
				o := c14Op{Kind: "rcpt", Addr: fmt.Sprintf("rsub%d@x.test", m), Judged: true, Field: "RCPT-subset"}
				if m&1 != 0 {
					o.Notify = []string{"FAILURE", "DELAY"}
				}
				if m&2 != 0 {
					o.ORcptType, o.ORcpt = "RFC822", "orig+inal@x.test"
				}
				if m&4 != 0 {
					o.RRVS = "2014-04-03T23:01:00Z"
				}
				ops = append(ops, o)
			}
			// envelope addresses themselves
			for _, a := range []string{"plain@x.test", "first.last+tag@sub.x.test", "üser@exämple.test", "ド@x.test", `"quoted local"@x.test`} {
				ops = append(ops, c14Op{Kind: "mail", Addr: a, UTF8: strings.IndexFunc(a, func(r rune) bool { return r > 127 }) >= 0, Judged: true, Field: "sender"})
				ops = append(ops, c14Op{Kind: "rcpt", Addr: a, Judged: true, Field: "recipient"})
			}
			batch(true, true, ops)
			batch(false, true, ops)
		}
	}, c14Exec)
}

func c14Exec(ctx *core.Ctx, c c14Case) {
	rig := wire.NewRig(rec.Auth, func(s *smtp.Server) {
		s.EnableDSN, s.EnableRRVS, s.EnableREQUIRETLS = true, true, true
		s.EnableSMTPUTF8 = c.SMTPUTF8
		s.AllowInsecureAuth = true
		if c.TLS {
			s.TLSConfig = wire.ServerTLS()
		}
	})
	rig.BE.H.AuthMechs = func(int) []string { return []string{"PLAIN"} }
	rig.BE.H.Auth = func(int, string) (sasl.Server, error) { return nil, smtp.ErrAuthUnknownMechanism }
	var p *wire.Peer
	var cl *smtp.Client
	if c.TLS {
		var err error
		p, err = rig.DialTLS()
		if err != nil {
			p.Close()
			rig.Finish()
			ctx.Inconclusive("C14 TLS handshake: " + err.Error())
			return
		}
		cl = smtp.NewClient(p.TLS)
	} else {
		p = rig.Dial()
		cl = smtp.NewClient(p.Raw)
	}
	defer func() { cl.Close(); p.Close(); rig.Finish() }()
	inTxn := false
	for _, op := range c.Ops {
		key := fmt.Sprintf("%v|%v|%+v", c.SMTPUTF8, c.TLS, op)
		fail := func(sig, msg string) {
			ctx.Violate(sig, msg+fmt.Sprintf(" [server SMTPUTF8=%v tls=%v field=%s op=%+v]", c.SMTPUTF8, c.TLS, op.Field, op), c14Case{SMTPUTF8: c.SMTPUTF8, TLS: c.TLS, Ops: []c14Op{op}}, rig.Log.Strings(0)[max(0, rig.Log.Len()-14):])
		}
		var err error
		mark := rig.Log.Len()
		if op.Kind == "mail" {
			if inTxn {
				if cl.Reset() != nil {
					return
				}
				inTxn = false
				mark = rig.Log.Len()
			}
			if op.UTF8 && !c.SMTPUTF8 || op.ReqTLS && !c.TLS {
				ctx.Eval(key, false)
				continue // the client (correctly) refuses locally; C15's subject
			}
			o := &smtp.MailOptions{Size: op.Size, UTF8: op.UTF8, RequireTLS: op.ReqTLS, Return: smtp.DSNReturn(op.Ret), EnvelopeID: op.EnvID}
			if op.HasAuth {
				a := op.Auth
				o.Auth = &a
			}
			err = cl.Mail(op.Addr, o)
			if err == nil {
				inTxn = true
			}
		} else {
			if !inTxn {
				if cl.Mail("sender@x.test", nil) != nil {
					return
				}
				inTxn = true
				mark = rig.Log.Len()
			}
			o := &smtp.RcptOptions{OriginalRecipientType: smtp.DSNAddressType(op.ORcptType), OriginalRecipient: op.ORcpt}
			for _, n := range op.Notify {
				o.Notify = append(o.Notify, smtp.DSNNotify(n))
			}
			if op.RRVS != "" {
				o.RequireRecipientValidSince, _ = time.Parse(time.RFC3339Nano, op.RRVS)
			}
			err = cl.Rcpt(op.Addr, o)
		}
		var se *smtp.SMTPError
		switch {
		case err != nil && !errors.As(err, &se):
			ctx.Eval(key, false)
			ctx.Add("client_local_errors_not_judged", 1)
			if !strings.HasPrefix(err.Error(), "smtp:") {
				return // transport problem: stop this batch
			}
			continue
		case err != nil:
			ctx.Eval(key, op.Judged)
			if op.Judged {
				fail("C14:server-refuses-client-encoding:"+op.Field, fmt.Sprintf("the client accepted the value and sent it, the server refused: %v; wire: %q", err, c14LastLine(rig.Log, mark)))
			} else {
				ctx.Add("refusals_outside_domain_not_judged", 1)
			}
			continue
		}
		ctx.Eval(key, true)
		// accepted: compare at the backend
		var ev *rec.Event
		for _, e := range rig.Log.Events()[mark:] {
			if e.Ph == "b" && ((op.Kind == "mail" && e.Kind == "Mail") || (op.Kind == "rcpt" && e.Kind == "Rcpt")) {
				x := e
				ev = &x
			}
		}
		if ev == nil {
			fail("C14:no-backend-call", "the command was accepted but the backend saw nothing")
			continue
		}
		ctx.Add("values_compared_at_backend", 1)
		if d := c14Diff(op, ev); d != "" {
			fail("C14:value-altered:"+op.Field, fmt.Sprintf("%s; wire: %q", d, c14LastLine(rig.Log, mark)))
		}
	}
	if ctx.WantSample(fmt.Sprintf("utf8srv=%v/%s", c.SMTPUTF8, c.Ops[0].Field)) {
		ctx.Sample(fmt.Sprintf("utf8srv=%v/%s", c.SMTPUTF8, c.Ops[0].Field), map[string]any{"server_smtputf8": c.SMTPUTF8, "tls": c.TLS, "ops_in_batch": len(c.Ops), "first_op": fmt.Sprintf("%+v", c.Ops[0])})
	}
}

func c14LastLine(l *rec.Log, mark int) string {
	last := ""
	for _, e := range l.Events()[mark:] {
		if e.Kind == "c2s" {
			last = e.A
		}
	}
	return last
}

func c14Diff(op c14Op, e *rec.Event) string {
	if e.A != op.Addr {
		// a quoted local-part may reach the backend verbatim or unquoted (as in C11)
		unq := op.Addr
		if strings.HasPrefix(unq, "\"") {
			if i := strings.LastIndex(unq, "\"@"); i > 0 {
				unq = strings.ReplaceAll(unq[1:i], "\\", "") + unq[i+1:]
			}
		}
		if e.A != unq {
			return fmt.Sprintf("address: backend %q, given %q", e.A, op.Addr)
		}
	}
	if op.Kind == "mail" {
		o := e.MailOpts
		if o == nil {
			return "options nil"
		}
		if o.Size != op.Size {
			return fmt.Sprintf("Size: backend %d, given %d", o.Size, op.Size)
		}
		if o.UTF8 != op.UTF8 || o.RequireTLS != op.ReqTLS {
			return fmt.Sprintf("flags: backend UTF8=%v REQUIRETLS=%v, given %v %v", o.UTF8, o.RequireTLS, op.UTF8, op.ReqTLS)
		}
		if string(o.Return) != op.Ret {
			return fmt.Sprintf("Return: backend %q, given %q", o.Return, op.Ret)
		}
		if o.EnvelopeID != op.EnvID {
			return fmt.Sprintf("EnvelopeID: backend %q, given %q", o.EnvelopeID, op.EnvID)
		}
		if (o.Auth != nil) != op.HasAuth {
			return fmt.Sprintf("Auth presence: backend %v, given %v", o.Auth != nil, op.HasAuth)
		}
		if o.Auth != nil && *o.Auth != op.Auth {
			return fmt.Sprintf("Auth: backend %q, given %q", *o.Auth, op.Auth)
		}
		return ""
	}
	o := e.RcptOpts
	if o == nil {
		return "options nil"
	}
	var got []string
	for _, n := range o.Notify {
		got = append(got, string(n))
	}
	want := append([]string{}, op.Notify...)
	sort.Strings(got)
	sort.Strings(want)
	if strings.Join(got, ",") != strings.Join(want, ",") {
		return fmt.Sprintf("Notify: backend %v, given %v", got, want)
	}
	wantType := op.ORcptType
	if op.ORcpt == "" {
		wantType = ""
	}
	if string(o.OriginalRecipientType) != wantType || o.OriginalRecipient != op.ORcpt {
		return fmt.Sprintf("ORCPT: backend %q;%q, given %q;%q", o.OriginalRecipientType, o.OriginalRecipient, op.ORcptType, op.ORcpt)
	}
	if op.RRVS == "" {
		if !o.RequireRecipientValidSince.IsZero() {
			return "RRVS: backend non-zero, given zero"
		}
	} else {
		t, _ := time.Parse(time.RFC3339Nano, op.RRVS)
		if !o.RequireRecipientValidSince.Equal(t.Truncate(time.Second)) {
			return fmt.Sprintf("RRVS: backend %v, given %v (to the second)", o.RequireRecipientValidSince, t)
		}
	}
	return ""
}
