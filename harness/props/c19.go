package props

import (
	"encoding/json"
	"fmt"
	"io"
	"strings"

	smtp "github.com/emersion/go-smtp"

	"verifharness/core"
	"verifharness/rec"
	"verifharness/wire"
)

// C19 — hostile input is bounded: over-long lines and error floods end the connection.

type c19Case struct {
	Kind string `json:"kind"` // length | endless | short | fuzz | flood

	Limit   int    `json:"limit"`
	Len     int    `json:"len"` // total line length, CRLF included
	Pos     string `json:"pos"` // first | later | auth | afterdata | afterchunk | afterrefused | mailline
	Split   bool   `json:"split"`
	SplitAt string `json:"split_at"` // with Split: "" = in the middle | lf = right before the LF | crlf = right before the CRLF | 1 = after the first octet
	Debug   bool   `json:"debug"`    // Server.Debug is set (the traffic is copied to a writer)

	State string `json:"state"` // fresh greeted mail rcpt bdat
	Line  []byte `json:"line"`
	LineQ string `json:"line_q"`

	Seed uint64  `json:"seed"`
	NBad int     `json:"nbad"`
	Mix  string  `json:"mix"`
	Mode srvMode `json:"mode"`
}

func init() {
	register(&Prop{ID: "C19", Run: c19Run, Replay: func(ctx *core.Ctx, raw json.RawMessage) error {
		return core.ReplayCase(ctx, raw, c19Exec)
	}})
}

var c19States = []string{"fresh", "greeted", "mail", "rcpt", "bdat", "hellorej", "wrongflavour", "failedtls", "failedtls-rcpt"}

func c19Run(ctx *core.Ctx) {
	nFuzz, shortLen := 60000, 3
	if ctx.Thorough() {
		nFuzz, shortLen = 5000000, 5
	}
	ctx.Rule = fmt.Sprintf("limits {32,64,2000,5000,8192} x total line lengths {limit-2..limit+3, 3*limit} x position {first line, later line, MAIL line, inside an AUTH exchange, after DATA, after a non-LAST BDAT chunk, after a refused BDAT} x {one segment, two segments cut in the middle / after the first octet / right before CRLF / right before LF} x Server.Debug {unset, set}; endless lines fed in 512-octet segments; all strings of length <=%d over {NUL,CR,LF,SP,'A','a',':','<',0xFF} as command lines in 9 session states (fresh, greeted, greeting refused by the backend, greeting of the wrong flavour, MAIL, RCPT, mid-BDAT, STARTTLS accepted but the handshake failed - greeted / with an envelope); %d seeded binary lines / token soups (a quarter of them MAIL/RCPT lines whose path is a soup of path fragments, another quarter MAIL/RCPT lines with a valid path and a soup of parameter fragments: truncated xtext hexchars, utf-8-addr escapes, dates, lists; every extension enabled); mixes of valid commands (incl. transaction ends and a STARTTLS upgrade) with 3..6 invalid ones. Oracles: ErrorLog tap (recovered panics), consumption counter of the transport, reply parser, backend log. Non-trivial: every case (hostile by construction); distinct by case.", shortLen, nFuzz)
	ctx.Assumptions = []string{"lines of exactly limit+1 octets are not judged", "short lines that share a segment with an over-long one are not judged", "an unrecovered panic kills the child process and is reported by the parent as <id>:process-crash"}
	core.RunCases(ctx, func(emit func(c19Case)) {
		for _, limit := range []int{32, 64, 2000, 5000, 8192} {
			lens := []int{limit - 2, limit - 1, limit, limit + 1, limit + 2, limit + 3, 3 * limit}
			for _, L := range lens {
				for _, pos := range []string{"first", "later", "mailline", "auth", "afterdata", "afterchunk", "afterrefused", "afterfailedchunk", "afteroverlimit"} {
					for _, split := range []bool{false, true} {
						for _, mode := range []srvMode{modeSMTP, modeLMTPRcpt} {
							emit(c19Case{Kind: "length", Limit: limit, Len: L, Pos: pos, Split: split, Mode: mode})
							emit(c19Case{Kind: "length", Limit: limit, Len: L, Pos: pos, Split: split, Mode: mode, Debug: true})
							if split {
								for _, at := range []string{"lf", "crlf", "1"} {
									emit(c19Case{Kind: "length", Limit: limit, Len: L, Pos: pos, Split: true, SplitAt: at, Mode: mode})
								}
							}
						}
					}
				}
			}
			for _, st := range c19States {
				emit(c19Case{Kind: "endless", Limit: limit, State: st})
			}
		}
		alpha := []string{"\x00", "\r", "\n", " ", "A", "a", ":", "<", "\xff"}
		core.Strings(alpha, shortLen, func(parts []string) {
			line := []byte(strings.Join(parts, ""))
			for _, st := range c19States {
				emit(c19Case{Kind: "short", State: st, Line: line, LineQ: fmt.Sprintf("%q", line)})
			}
		})
		// every ordinary command (and a few pipelined pairs) in every state: out of place in most of
		// them, which must be a refusal and never a crash
		for _, l := range []string{"MAIL FROM:<a@x.test>", "MAIL FROM:<>", "RCPT TO:<b@x.test>", "DATA", "BDAT 1 LAST\r\nx", "BDAT 0 LAST", "BDAT 0", "RSET", "VRFY a", "EXPN l", "HELP", "NOOP", "AUTH VERIF b2s=", "AUTH VERIF", "STARTTLS", "QUIT",
			"EHLO again.test", "HELO again.test", "LHLO again.test", "MAIL FROM:<a@x.test>\r\nRCPT TO:<b@x.test>\r\nDATA\r\nx\r\n.", "MAIL FROM:<a@x.test> BODY=BINARYMIME\r\nRCPT TO:<b@x.test>\r\nBDAT 1 LAST\r\nx", "RCPT TO:<b@x.test>\r\nBDAT 2\r\nab\r\nRSET",
			// arguments made of nothing but Unicode white space (not SP/HT: they are argument text)
			"EHLO \u00a0", "HELO \u0085", "LHLO \u2003", "EHLO a\u00a0b", "EHLO \u00a0 \u2003", "MAIL FROM:\u00a0", "MAIL \u2003", "RCPT TO:\u0085", "RCPT TO:<b@x.test> \u00a0", "MAIL FROM:<a@x.test> \u2003=\u00a0",
			"VRFY \u00a0", "AUTH \u00a0", "AUTH VERIF \u2003", "BDAT \u00a0", "BDAT 1 \u0085", "NOOP \u00a0", "\u00a0", "\u2003 EHLO x", "DATA \u00a0", "STARTTLS \u0085", "RSET \u3000", "QUIT \u00a0"} {
			for _, st := range c19States {
				emit(c19Case{Kind: "short", State: st, Line: []byte(l), LineQ: fmt.Sprintf("%q", l)})
			}
		}
		for i := 0; i < nFuzz; i++ {
			emit(c19Case{Kind: "fuzz", Seed: ctx.Seed<<32 | uint64(i), State: c19States[i%len(c19States)]})
		}
		for nbad := 3; nbad <= 6; nbad++ {
			for _, mix := range []string{"consecutive", "interleaved", "afterenvelope", "rset-between", "hello-between", "message-between", "starttls-between"} {
				for _, bad := range []string{"XXXX", "AB", "ABCDE", "", "FOOBAR x"} {
					for _, mode := range []srvMode{modeSMTP, modeLMTPRcpt} {
						emit(c19Case{Kind: "flood", NBad: nbad, Mix: mix, Line: []byte(bad), LineQ: bad, Mode: mode})
					}
				}
			}
		}
	}, c19Exec)
}

func c19Exec(ctx *core.Ctx, c c19Case) {
	switch c.Kind {
	case "length":
		c19Length(ctx, c)
	case "endless":
		c19Endless(ctx, c)
	case "short", "fuzz":
		c19Garbage(ctx, c)
	case "flood":
		c19Flood(ctx, c)
	}
}

func c19Panics(l *rec.Log) string {
	for _, e := range l.Events() {
		if e.Kind == "log" && strings.Contains(e.A, "panic") {
			return clipStr(e.A, 400)
		}
	}
	return ""
}

func c19Rig(mode srvMode, limit int) *wire.Rig {
	kind := rec.Auth
	if mode == modeLMTPRcpt {
		kind = rec.AuthLMTP
	}
	rig := wire.NewRig(kind, func(s *smtp.Server) {
		s.LMTP = mode.lmtp()
		s.AllowInsecureAuth = true
		// every extension on, so that hostile parameters reach their decoders
		s.EnableSMTPUTF8, s.EnableREQUIRETLS, s.EnableBINARYMIME, s.EnableDSN, s.EnableRRVS = true, true, true, true, true
		if limit > 0 {
			s.MaxLineLength = limit
		}
	})
	histHooks(rig)
	return rig
}

// c19TLSFor gives the server a TLS configuration when the state needs STARTTLS to be offered.
func c19TLSFor(rig *wire.Rig, state string) {
	if strings.HasPrefix(state, "failedtls") {
		rig.Srv.TLSConfig = wire.ServerTLS()
	}
}

// c19Enter brings the connection into the named state (lock-step) and returns false on failure.
func c19Enter(p *wire.Peer, mode srvMode, state string) bool {
	if _, err := p.ReadReply(); err != nil {
		return false
	}
	var cmds []string
	switch state {
	case "fresh":
	case "greeted":
		cmds = []string{mode.hello()}
	case "wrongflavour":
		cmds = []string{"LHLO lmtp-client.test"} // refused: this is an SMTP server
		if mode.lmtp() {
			cmds = []string{"EHLO smtp-client.test"}
		}
	case "hellorej":
		cmds = []string{strings.Fields(mode.hello())[0] + " rejected1.test"} // the backend refuses to create a session
	case "mail":
		cmds = []string{mode.hello(), "MAIL FROM:<s@x.test>"}
	case "rcpt":
		cmds = []string{mode.hello(), "MAIL FROM:<s@x.test>", "RCPT TO:<r@x.test>"}
	case "bdat":
		cmds = []string{mode.hello(), "MAIL FROM:<s@x.test>", "RCPT TO:<r@x.test>", "BDAT 2\r\nab"} // payload sent as its own segment
	}
	if strings.HasPrefix(state, "failedtls") {
		// STARTTLS is accepted, but what the peer sends next is not a TLS record: the handshake
		// fails and the connection (if the server keeps it) is the plaintext connection it was
		cmds = []string{mode.hello()}
		if state == "failedtls-rcpt" {
			cmds = append(cmds, "MAIL FROM:<s@x.test>", "RCPT TO:<r@x.test>")
		}
		for _, c := range cmds {
			p.SendStr(c + "\r\n")
			if _, err := p.ReadReply(); err != nil {
				return false
			}
		}
		p.SendStr("STARTTLS\r\n")
		if r, err := p.ReadReply(); err != nil || r.Code != 220 {
			return false
		}
		p.SendStr("NOOP\r\n")
		p.ReadUntilStall() // a closed connection is a legitimate outcome: the lines that follow go nowhere
		return true
	}
	for _, c := range cmds {
		if strings.HasPrefix(c, "BDAT") {
			i := strings.Index(c, "\r\n") + 2
			p.SendStr(c[:i])
			p.SendStr(c[i:])
		} else {
			p.SendStr(c + "\r\n")
		}
		if _, err := p.ReadReply(); err != nil {
			return false
		}
	}
	return true
}

func c19Length(ctx *core.Ctx, c c19Case) {
	ctx.Eval(fmt.Sprintf("length|%d|%d|%s|%v|%s|%v|%s", c.Limit, c.Len, c.Pos, c.Split, c.Mode, c.Debug, c.SplitAt), true)
	rig := c19Rig(c.Mode, c.Limit)
	if c.Debug {
		rig.Srv.Debug = io.Discard
	}
	if c.Pos == "afteroverlimit" {
		rig.Srv.MaxMessageBytes = 10
	}
	p := rig.Dial()
	fail := func(sig, msg string, rs []wire.Reply) {
		ctx.Violate(sig, msg+fmt.Sprintf(" [limit=%d len=%d pos=%s split=%v/%s mode=%s debug=%v]", c.Limit, c.Len, c.Pos, c.Split, c.SplitAt, c.Mode, c.Debug), c, witness(rig.Log, rs))
	}
	// the probe line: total length c.Len including CRLF
	mk := func(prefix string) []byte {
		n := c.Len - 2 - len(prefix)
		if n < 0 {
			return nil
		}
		return []byte(prefix + strings.Repeat("x", n) + "\r\n")
	}
	var setup []string
	probe := mk("NOOP ")
	expectOK := "250"
	switch c.Pos {
	case "first":
		setup = nil
	case "later":
		setup = []string{c.Mode.hello()}
	case "mailline":
		setup = []string{c.Mode.hello()}
		// MAIL FROM:<xxxx@x.test>
		n := c.Len - 2 - len("MAIL FROM:<@x.test>")
		if n < 1 {
			probe = nil
		} else {
			probe = []byte("MAIL FROM:<" + strings.Repeat("m", n) + "@x.test>\r\n")
		}
	case "auth":
		setup = []string{c.Mode.hello(), "AUTH VERIF"}
		n := c.Len - 2
		n -= n % 4
		if n < 4 {
			probe = nil
		} else {
			probe = []byte(strings.Repeat("QUFB", n/4) + strings.Repeat(" ", c.Len-2-n) + "\r\n")
			if c.Len-2-n != 0 {
				probe = nil // keep the response valid base64: only lengths that are multiples of four
			}
		}
		expectOK = "535"
	case "afterdata":
		setup = []string{c.Mode.hello(), "MAIL FROM:<s@x.test>", "RCPT TO:<r@x.test>", "DATA", "body\r\n."}
	case "afterchunk":
		setup = []string{c.Mode.hello(), "MAIL FROM:<s@x.test>", "RCPT TO:<r@x.test>", "BDAT 3\r\nabc"}
	case "afterrefused":
		setup = []string{c.Mode.hello(), "BDAT 3\r\nabc"}
	case "afterfailedchunk":
		// the backend gives up in the middle of the chunk (body starts with FAILEARLY)
		setup = []string{c.Mode.hello(), "MAIL FROM:<s@x.test>", "RCPT TO:<r@x.test>", "BDAT 41\r\nFAILEARLY ID:1\r\nmore data here 12345678\r\n"}
	case "afteroverlimit":
		setup = []string{c.Mode.hello(), "MAIL FROM:<s@x.test>", "RCPT TO:<r@x.test>", "BDAT 30\r\n123456789012345678901234567890"}
	}
	if probe == nil {
		p.Close()
		rig.Finish()
		return
	}
	var all []wire.Reply
	g, err := p.ReadReply()
	all = append(all, g)
	for _, s := range setup {
		if err != nil {
			break
		}
		if strings.HasPrefix(s, "BDAT") {
			// command line and payload in separate segments: payload that is read ahead
			// together with its command line is the C05 known finding, not this check's subject
			i := strings.Index(s, "\r\n") + 2
			p.SendStr(s[:i])
			p.SendStr(s[i:])
		} else {
			p.SendStr(s + "\r\n")
		}
		var rs []wire.Reply
		rs, err = p.ReadUntilStall()
		all = append(all, rs...)
		if len(rs) == 0 && err == nil {
			err = fmt.Errorf("no reply to setup command %q", s)
		}
	}
	if err != nil {
		p.Close()
		rig.Finish()
		if isWatchdog(err) {
			ctx.Inconclusive("C19 length setup watchdog")
			return
		}
		fail("C19:setup", fmt.Sprintf("setup failed: %v", err), all)
		return
	}
	before := rig.Log.Len()
	if c.Split && len(probe) > 4 {
		at := len(probe) / 2
		switch c.SplitAt {
		case "lf":
			at = len(probe) - 1
		case "crlf":
			at = len(probe) - 2
		case "1":
			at = 1
		}
		p.Send(probe[:at])
		if c.SplitAt != "" {
			p.Raw.WaitPeerIdle(wire.Watchdog) // the first part is consumed by a read of its own
		}
		p.Send(probe[at:])
	} else {
		p.Send(probe)
	}
	rs, rerr := p.ReadUntilStall()
	all = append(all, rs...)
	closed := isEOF(rerr)
	p.Close()
	fin := rig.Finish()
	if isWatchdog(rerr) || !fin {
		ctx.Inconclusive("C19 length watchdog")
		return
	}
	ctx.Add("replies_parsed", int64(len(all)))
	if pn := c19Panics(rig.Log); pn != "" {
		fail("C19:recovered-panic", "recovered panic: "+pn, all)
		return
	}
	reached := false
	for _, e := range rig.Log.Events()[before:] {
		if e.Ph == "b" && (e.Kind == "Mail" || e.Kind == "SaslNext" && len(e.A) > 8) {
			reached = true
		}
	}
	switch {
	case c.Len <= c.Limit:
		// A MAIL line with a very long local-part may be refused for reasons other than the line
		// length (RFC 5321 4.5.3.1.1): for that position only "refused as too long a line"
		// (500 and the connection closed) is a violation.
		lenient := c.Pos == "mailline" && len(rs) == 1 && !(rs[0].Code == 500 && closed)
		if !lenient && (len(rs) != 1 || fmt.Sprint(rs[0].Code) != expectOK) {
			fail("C19:short-line-refused:"+c.Pos, fmt.Sprintf("a line of %d octets (limit %d) was answered %s closed=%v, expected %s", c.Len, c.Limit, codes(rs), closed, expectOK), all)
			return
		}
	case c.Len >= c.Limit+2:
		if !(len(rs) == 1 && rs[0].Code == 500 && closed) {
			sig := "C19:long-line-not-refused:" + c.Pos
			fail(sig, fmt.Sprintf("a line of %d octets (limit %d) was answered %s closed=%v, expected 500 and the connection closed", c.Len, c.Limit, codes(rs), closed), all)
			return
		}
		if reached {
			fail("C19:long-line-reached-backend:"+c.Pos, "the over-long line reached the backend", all)
			return
		}
	}
	cls := "length/" + c.Pos
	if ctx.WantSample(cls) {
		ctx.Sample(cls, map[string]any{"limit": c.Limit, "len": c.Len, "pos": c.Pos, "split": c.Split, "reply": codes(rs), "closed": closed})
	}
}

func c19Endless(ctx *core.Ctx, c c19Case) {
	ctx.Eval(fmt.Sprintf("endless|%d|%s", c.Limit, c.State), true)
	rig := c19Rig(modeSMTP, c.Limit)
	c19TLSFor(rig, c.State)
	p := rig.Dial()
	if !c19Enter(p, modeSMTP, c.State) {
		p.Close()
		rig.Finish()
		ctx.Inconclusive("C19 endless: could not enter state " + c.State)
		return
	}
	base := p.Raw.PeerReadStats().Consumed
	seg := []byte(strings.Repeat("E", 512))
	bound := int64(c.Limit + 4096 + 512)
	sent := int64(0)
	closedAt := int64(-1)
	for sent < bound+16*512 {
		p.Send(seg)
		sent += 512
		idle, err := p.Raw.WaitPeerIdle(wire.Watchdog)
		if err != nil {
			p.Close()
			rig.Finish()
			ctx.Inconclusive("C19 endless watchdog")
			return
		}
		if !idle {
			closedAt = sent
			break
		}
	}
	consumed := p.Raw.PeerReadStats().Consumed - base
	rs, _ := p.ReadAll()
	p.Close()
	rig.Finish()
	ctx.Add("octets_fed", sent)
	if pn := c19Panics(rig.Log); pn != "" {
		ctx.Violate("C19:recovered-panic", "recovered panic: "+pn, c, witness(rig.Log, rs))
		return
	}
	if closedAt < 0 || consumed > bound {
		ctx.Violate("C19:endless-line-unbounded:"+c.State, fmt.Sprintf("server consumed %d octets of a line without LF (limit %d, bound %d) and closed=%v [state=%s]", consumed, c.Limit, bound, closedAt >= 0, c.State), c, witness(rig.Log, rs))
		return
	}
	if len(rs) == 0 || rs[len(rs)-1].Code != 500 {
		ctx.Violate("C19:endless-line-no-500:"+c.State, fmt.Sprintf("endless line: connection closed after %d octets but the last reply is %s [state=%s limit=%d]", consumed, codes(rs), c.State, c.Limit), c, witness(rig.Log, rs))
		return
	}
	if ctx.WantSample("endless") {
		ctx.Sample("endless", map[string]any{"limit": c.Limit, "state": c.State, "consumed_before_close": consumed, "reply": codes(rs)})
	}
}

// c19ParamSoup builds a MAIL or RCPT line with a valid path followed by a soup of parameter
// fragments (complete and truncated xtext hexchars, utf-8-addr escapes, dates, lists): input that
// gets past the command and path parsers and into the parameter decoders. The second result is
// the session state the line is meant for.
func c19ParamSoup(seed uint64) ([]byte, string) {
	r := core.NewRand(seed, 192)
	toks := []string{"AUTH=", "ENVID=", "ORCPT=", "rfc822;", "utf-8;", "NOTIFY=", "RRVS=", "SIZE=", "BODY=", "RET=", "SMTPUTF8", "REQUIRETLS",
		"+", "+4", "+4G", "+3C", "+3E", "+2B", "+00", "+FF", "+f", "<>", "<", ">", "\\x{", "\\x{2B}", "\\x{110000}", "\\x{D800}", "\\x{0}", "\\x{}", "}", "{", "x@y", "a@b.test", ";", ",", "=", " ", "  ", "\t",
		"2014-04-03T23:01:00Z", "2014-04-03T23:01:00+25:00", "9999-99-99T99:99:99Z", ";C", "NEVER", "SUCCESS", "FAILURE", "DELAY", "FULL", "HDRS", "7BIT", "8BITMIME", "BINARYMIME", "9BIT",
		"0", "1", "18446744073709551616", "9223372036854775807", "-", "\x00", "\xff", "\xc3", "\xc3\xa9", "\""}
	line, state := "MAIL FROM:<a@b.test>", "greeted"
	switch r.Intn(4) {
	case 0, 1:
		line, state = "RCPT TO:<a@b.test>", "mail"
	case 2:
		state = []string{"hellorej", "wrongflavour"}[r.Intn(2)] // the greeting was refused: there is no session
	}
	n := 1 + r.Intn(8)
	b := []byte(line + " ")
	for i := 0; i < n; i++ {
		b = append(b, toks[r.Intn(len(toks))]...)
	}
	return b, state
}

// c19PathSoup builds MAIL/RCPT lines whose path is a soup of path-significant fragments
// (quotes, backslashes at the very end, brackets, routes).
func c19PathSoup(seed uint64) ([]byte, string) {
	r := core.NewRand(seed, 193)
	toks := []string{"<", ">", "@", "\"", "\\", ".", ":", ",", "a", "abc", " ", "[", "]", "IPv6:", "::1", "127.0.0.1", "\"abc\\", "\"a b\"", "<@r.test:", "x.test", "\xc3\xa9", "\x00", "<>", "\\\"", "\t"}
	line, state := "MAIL FROM:", "greeted"
	switch r.Intn(4) {
	case 1:
		line, state = "RCPT TO:", "mail"
	case 2:
		line, state = "MAIL FROM:", []string{"hellorej", "wrongflavour"}[r.Intn(2)]
	}
	b := []byte(line)
	for n := 1 + r.Intn(7); n > 0; n-- {
		b = append(b, toks[r.Intn(len(toks))]...)
	}
	return b, state
}

func c19FuzzLine(seed uint64) []byte {
	r := core.NewRand(seed, 191)
	toks := []string{"EHLO", "HELO", "LHLO", "MAIL", "RCPT", "DATA", "BDAT", "RSET", "NOOP", "QUIT", "AUTH", "STARTTLS", "VRFY", " FROM:", " TO:", "<", ">", "@", ":", " ", "\r\n", "\n", "\r", ".", "LAST", "0", "1", "99999999999", "-1", "=", "SIZE=", "BODY=", "SMTPUTF8", "PLAIN", "*", "\x00", "\xff", "\t", "\"", "\\", "a", "x.test", "4294967295", "4294967296", "+", "NOTIFY=", "ORCPT=", "rfc822;", "utf-8;", "\\x{", "}", "RET=", "ENVID=", "RRVS=", ";", ","}
	var b []byte
	n := 1 + r.Intn(14)
	for i := 0; i < n; i++ {
		if r.Chance(1, 6) {
			k := 1 + r.Intn(6)
			for j := 0; j < k; j++ {
				b = append(b, byte(r.Intn(256)))
			}
		} else {
			b = append(b, toks[r.Intn(len(toks))]...)
		}
	}
	return b
}

func c19Garbage(ctx *core.Ctx, c c19Case) {
	line := c.Line
	if c.Kind == "fuzz" {
		line = c19FuzzLine(c.Seed)
		switch c.Seed % 4 {
		case 1:
			line, c.State = c19ParamSoup(c.Seed)
		case 2:
			line, c.State = c19PathSoup(c.Seed)
		}
	}
	ctx.Eval(fmt.Sprintf("%s|%s|%q", c.Kind, c.State, line), true)
	rig := c19Rig(modeSMTP, 0)
	c19TLSFor(rig, c.State)
	p := rig.Dial()
	if !c19Enter(p, modeSMTP, c.State) {
		p.Close()
		rig.Finish()
		ctx.Inconclusive("C19 garbage: could not enter state " + c.State)
		return
	}
	p.Send(append(append([]byte{}, line...), "\r\n"...))
	p.SendStr("NOOP\r\n")
	p.Raw.CloseWrite()
	rs, err := p.ReadAll()
	p.Close()
	fin := rig.Finish()
	ends := waitDataEnds(rig.Log)
	if isWatchdog(err) || !fin || !ends {
		ctx.Inconclusive(fmt.Sprintf("C19 garbage watchdog line=%q", line))
		return
	}
	ctx.Add("replies_parsed", int64(len(rs)))
	ctx.Add("backend_events", countBackendEvents(rig.Log.Events()))
	if pn := c19Panics(rig.Log); pn != "" {
		ctx.Violate("C19:recovered-panic", fmt.Sprintf("recovered panic on input %q in state %s: %s", line, c.State, pn), c, witness(rig.Log, rs))
		return
	}
	if !isEOF(err) {
		ctx.Violate("C19:connection-not-closed", fmt.Sprintf("after the peer closed, the server did not close the connection (input %q state %s): %v", line, c.State, err), c, witness(rig.Log, rs))
		return
	}
	if ctx.WantSample(c.Kind + "/" + c.State) {
		ctx.Sample(c.Kind+"/"+c.State, map[string]any{"state": c.State, "line": fmt.Sprintf("%q", line), "replies": codes(rs)})
	}
}

func c19Flood(ctx *core.Ctx, c c19Case) {
	ctx.Eval(fmt.Sprintf("flood|%d|%s|%q|%s", c.NBad, c.Mix, c.Line, c.Mode), true)
	rig := c19Rig(c.Mode, 0)
	p := rig.Dial()
	var script []string
	bad := string(c.Line)
	switch c.Mix {
	case "consecutive":
		for i := 0; i < c.NBad; i++ {
			script = append(script, bad)
		}
	case "interleaved":
		script = append(script, c.Mode.hello())
		for i := 0; i < c.NBad; i++ {
			script = append(script, bad, "NOOP")
		}
	case "rset-between", "hello-between", "message-between":
		// commands that end a transaction (and might wrongly forgive errors) between the invalid ones
		script = append(script, c.Mode.hello())
		for i := 0; i < c.NBad; i++ {
			script = append(script, bad)
			switch c.Mix {
			case "rset-between":
				script = append(script, "RSET")
			case "hello-between":
				script = append(script, c.Mode.hello())
			default:
				script = append(script, "MAIL FROM:<s@x.test>", "RCPT TO:<r@x.test>", "BDAT 2 LAST\r\nab")
			}
		}
	case "starttls-between":
		// errors on both sides of a STARTTLS upgrade: the count belongs to the connection
		rig.Srv.TLSConfig = wire.ServerTLS()
		script = append(script, c.Mode.hello(), bad, bad, "STARTTLS", c.Mode.hello())
		for i := 2; i < c.NBad; i++ {
			script = append(script, bad)
		}
	case "afterenvelope":
		script = append(script, c.Mode.hello(), "MAIL FROM:<s@x.test>", bad, "RCPT TO:<r@x.test>")
		for i := 1; i < c.NBad; i++ {
			script = append(script, bad)
		}
	}
	script = append(script, "MAIL FROM:<after-flood@x.test>", "NOOP")
	var all []wire.Reply
	g, err := p.ReadReply()
	all = append(all, g)
	nbad := 0
	closedAfter := -1
	for i, s := range script {
		if err != nil {
			break
		}
		if strings.HasPrefix(s, "BDAT") {
			i := strings.Index(s, "\r\n") + 2
			p.SendStr(s[:i])
			p.SendStr(s[i:])
		} else {
			p.SendStr(s + "\r\n")
		}
		var rs []wire.Reply
		rs, err = p.ReadUntilStall()
		all = append(all, rs...)
		if s == "STARTTLS" && err == nil && len(rs) == 1 && rs[0].Code == 220 {
			if terr := p.StartTLSClient(); terr != nil {
				err = terr
			} else {
				p.Raw.WaitPeerIdle(wire.Watchdog)
			}
		}
		if s == bad {
			nbad++
		}
		if isEOF(err) {
			closedAfter = i
		}
	}
	p.Close()
	fin := rig.Finish()
	if isWatchdog(err) || !fin {
		ctx.Inconclusive("C19 flood watchdog")
		return
	}
	ctx.Add("replies_parsed", int64(len(all)))
	fail := func(sig, msg string) {
		ctx.Violate(sig, msg+fmt.Sprintf(" [nbad=%d mix=%s bad=%q mode=%s]", c.NBad, c.Mix, bad, c.Mode), c, witness(rig.Log, all))
	}
	if pn := c19Panics(rig.Log); pn != "" {
		fail("C19:recovered-panic", "recovered panic: "+pn)
		return
	}
	if c.NBad >= 4 {
		// the connection must be closed once the fourth invalid command has been answered
		if closedAfter < 0 {
			fail("C19:error-flood-not-closed", fmt.Sprintf("%d invalid commands were sent and the connection is still open (%s)", c.NBad, codes(all)))
			return
		}
		for _, e := range rig.Log.Events() {
			if e.Kind == "Mail" && e.A == "after-flood@x.test" {
				fail("C19:error-flood-not-closed", "a command sent after the error flood was executed")
				return
			}
		}
		if nbad > 4 {
			fail("C19:error-flood-not-closed", fmt.Sprintf("the connection was only closed after %d invalid commands", nbad))
			return
		}
	}
	if ctx.WantSample("flood/" + c.Mix) {
		ctx.Sample("flood/"+c.Mix, map[string]any{"nbad": c.NBad, "mix": c.Mix, "bad": bad, "replies": codes(all), "closed_after_script_index": closedAfter})
	}
}
