package props

import (
	"bytes"
	"encoding/json"
	"fmt"
	"time"

	smtp "github.com/emersion/go-smtp"

	"verifharness/core"
	"verifharness/memconn"
	"verifharness/rec"
	"verifharness/wire"
)

// C07 — an incomplete message is never presented to the backend as complete.

type c07Case struct {
	CSeed   uint64  `json:"cseed"` // 0: Conv indexes the fixed corpus; else the seeded family of that seed
	Conv    int     `json:"conv"`  // index into corpus()
	Name    string  `json:"name"`
	Cut     int     `json:"cut"`     // number of client octets delivered before the failure (-1: abandon case)
	Kind    string  `json:"kind"`    // close | timeout | reset | deadline (ReadTimeout set, the armed read deadline is fired at the cut and the peer then carries on with the rest)
	Seg     string  `json:"seg"`     // one | line | bytes
	Abandon string  `json:"abandon"` // "", RSET, QUIT, HELLO, disconnect, srvclose
	Chunks  int     `json:"chunks"`  // abandon cases: number of non-LAST chunks sent before abandoning
	Mode    srvMode `json:"mode"`
	Limit   string  `json:"limit"` // "": no MaxMessageBytes; "exact": the size of the conversation's first message; "plus1"
}

func init() {
	register(&Prop{ID: "C07", Level: "fault_enumeration", Run: c07Run, Replay: func(ctx *core.Ctx, raw json.RawMessage) error {
		return core.ReplayCase(ctx, raw, c07Exec)
	}})
}

func c07Run(ctx *core.Ctx) {
	cs := corpus()
	ctx.Rule = fmt.Sprintf("crash-point enumeration: every octet offset of %d DATA/BDAT conversations (SMTP, LMTP, LMTP per-recipient; dot-stuffed bodies, bodies ending inside CRLF., 1-3 chunks, two messages per connection) x failure kind {clean close, timeout-flavoured read error, reset-flavoured read error, read deadline expiring (ReadTimeout set, virtual clock) with the peer carrying on afterwards} x segmentation {one segment, per line%s}; plus every abandoning command {RSET, QUIT, new EHLO/LHLO, disconnect, Server.Close} after 0..2 non-LAST chunks. Non-trivial: the cut leaves a message incomplete; distinct by full case.", len(cs), map[bool]string{true: ", octet-by-octet", false: ""}[ctx.Thorough()])
	ctx.Exhaustive = true
	ctx.Assumptions = []string{"exhaustive over the offsets of the corpus conversations only", "backend reads until the reader fails and returns that error"}
	core.RunCases(ctx, func(emit func(c07Case)) {
		for ci, c := range cs {
			n := len(c.bytes())
			segs := []string{"one", "line"}
			if ctx.Thorough() {
				segs = append(segs, "bytes")
			}
			for cut := 0; cut <= n; cut++ {
				for ki, kind := range []string{"close", "timeout", "reset"} {
					for _, sg := range segs {
						emit(c07Case{Conv: ci, Name: c.Name, Cut: cut, Kind: kind, Seg: sg, Mode: c.Mode})
					}
					if ki == 0 {
						// "times out": the read deadline expires at this point of the conversation,
						// after which the peer carries on sending the rest
						emit(c07Case{Conv: ci, Name: c.Name, Cut: cut, Kind: "deadline", Seg: segs[cut%2], Mode: c.Mode})
					}
					// the same crash points with a size limit exactly at / one above the message size
					if len(c.Msgs[0]) > 0 {
						emit(c07Case{Conv: ci, Name: c.Name, Cut: cut, Kind: kind, Seg: segs[(cut+ki)%2], Mode: c.Mode, Limit: []string{"exact", "plus1"}[(cut+ki)%2]})
						if ctx.Thorough() {
							emit(c07Case{Conv: ci, Name: c.Name, Cut: cut, Kind: kind, Seg: segs[(cut+ki)%2], Mode: c.Mode, Limit: []string{"plus1", "exact"}[(cut+ki)%2]})
						}
					}
				}
			}
		}
		if ctx.Thorough() {
			for k := 0; k < 2500; k++ {
				cv := seededConv(ctx.Seed+1, k)
				n := len(cv.bytes())
				for cut := 0; cut <= n; cut++ {
					for ki, kind := range []string{"close", "timeout", "reset"} {
						emit(c07Case{CSeed: ctx.Seed + 1, Conv: k, Name: cv.Name, Cut: cut, Kind: kind, Seg: []string{"one", "line", "bytes"}[(cut+ki)%3], Mode: cv.Mode})
					}
				}
			}
		}
		for _, mode := range []srvMode{modeSMTP, modeLMTP, modeLMTPRcpt} {
			for _, ab := range []string{"RSET", "QUIT", "HELLO", "disconnect", "srvclose"} {
				for chunks := 0; chunks <= 2; chunks++ {
					for _, sg := range []string{"one", "line"} {
						emit(c07Case{Conv: -1, Name: "abandon", Cut: -1, Abandon: ab, Chunks: chunks, Seg: sg, Mode: mode})
					}
				}
			}
		}
	}, c07Exec)
}

func sendPrefix(p *wire.Peer, data []byte, seg string) {
	switch seg {
	case "one":
		p.Send(data)
	case "bytes":
		for i := range data {
			p.Send(data[i : i+1])
		}
	default:
		for len(data) > 0 {
			i := 0
			for i < len(data) && data[i] != '\n' {
				i++
			}
			if i < len(data) {
				i++
			}
			p.Send(data[:i])
			data = data[i:]
		}
	}
}

func c07Exec(ctx *core.Ctx, c c07Case) {
	if c.Abandon != "" {
		c07Abandon(ctx, c)
		return
	}
	cv, okc := convFor(corpus(), c.CSeed, c.Conv)
	if !okc {
		ctx.Broken("C07: bad conversation index")
		return
	}
	all := cv.bytes()
	if c.Cut > len(all) {
		c.Cut = len(all)
	}
	complete := cv.completeAt()
	incomplete := false
	for _, at := range complete {
		if c.Cut < at {
			incomplete = true
		}
	}
	ctx.Eval(fmt.Sprintf("%d|%d|%d|%s|%s|%s", c.CSeed, c.Conv, c.Cut, c.Kind, c.Seg, c.Limit), incomplete)

	if gaveUp("c07cut|" + cv.Name) {
		ctx.Add("cases_skipped_after_an_established_hang", 1)
		return
	}
	rig := newRig(cv.Mode, func(s *smtp.Server) {
		switch c.Limit {
		case "exact":
			s.MaxMessageBytes = int64(len(cv.Msgs[0]))
		case "plus1":
			s.MaxMessageBytes = int64(len(cv.Msgs[0])) + 1
		}
		if c.Kind == "deadline" {
			s.ReadTimeout = time.Hour // virtual clock: expires only when the harness fires it
		}
	})
	rig.BE.H.Data = func(sess int, r *rec.Reader, st smtp.StatusCollector) error {
		err := r.ReadAll(64)
		if err != nil && err.Error() == "EOF" {
			return nil
		}
		return err
	}
	p := rig.Dial()
	sendPrefix(p, all[:c.Cut], c.Seg)
	switch c.Kind {
	case "deadline":
		idle, werr := p.Raw.WaitPeerIdle(wire.Watchdog)
		if werr != nil {
			p.Close()
			rig.Finish()
			ctx.Inconclusive(fmt.Sprintf("C07 deadline: server did not go idle conv=%s cut=%d", cv.Name, c.Cut))
			return
		}
		if !idle {
			// the server has already ended the connection (QUIT was among the octets sent)
			p.Raw.CloseWrite()
			break
		}
		if !p.SrvEnd.FireReadDeadline() {
			// no deadline is armed here: nothing times out, the case degenerates to a clean close
			ctx.Add("cuts_where_no_read_deadline_was_armed", 1)
			p.Raw.CloseWrite()
			break
		}
		rig.Log.Act("read deadline fired; the peer carries on")
		ctx.Add("read_deadlines_fired", 1)
		sendPrefix(p, all[c.Cut:], c.Seg)
		p.Raw.CloseWrite()
	case "timeout":
		p.Raw.CloseWriteWithError(memconn.ErrTimeout)
	case "reset":
		p.Raw.CloseWriteWithError(memconn.ErrReset)
	default:
		p.Raw.CloseWrite()
	}
	replies, err := p.ReadAll()
	p.Close()
	fin := rig.Finish()
	ends := waitDataEnds(rig.Log)
	if isWatchdog(err) || !fin || !ends {
		giveUp("c07cut|" + cv.Name)
		if !ends {
			// The peer is gone for good and everything it sent has been consumed, yet a Data call
			// is still open and nothing has happened for a while: its reader will never fail.
			// Decided from state (open call, no possible input, quiet log), not from the time.
			quiet, last := 0, rig.Log.Len()
			for i := 0; i < 600 && quiet < 300; i++ {
				time.Sleep(time.Millisecond)
				if n := rig.Log.Len(); n != last {
					last, quiet = n, 0
				} else {
					quiet++
				}
			}
			if quiet >= 300 && !waitDataEndsNow(rig.Log) {
				ctx.Violate("C07:reader-never-fails", fmt.Sprintf("the connection ended (%s at octet %d of %s) but the backend's reader neither fails nor ends: the delivery is parked for ever with an incomplete message", c.Kind, c.Cut, cv.Name), c, witness(rig.Log, replies))
				return
			}
		}
		ctx.Inconclusive(fmt.Sprintf("C07 watchdog conv=%s cut=%d", cv.Name, c.Cut))
		return
	}
	ev := rig.Log.Events()
	ctx.Add("backend_events", countBackendEvents(ev))
	ctx.Add("replies_parsed", int64(len(replies)))
	fail := func(sig, msg string) {
		ctx.Violate(sig, msg+fmt.Sprintf(" [conv=%s mode=%s cut=%d/%d kind=%s seg=%s limit=%q]", cv.Name, cv.Mode, c.Cut, len(all), c.Kind, c.Seg, c.Limit), c, witness(rig.Log, replies))
	}
	// reader verdicts
	des := dataEnds(ev)
	ctx.Add("data_calls_observed", int64(len(des)))
	for k, d := range des {
		if k >= len(cv.Msgs) {
			fail("C07:extra-data-call", "more Data calls than messages")
			return
		}
		isComplete := c.Cut >= complete[k]
		if c.Kind == "deadline" && !isComplete {
			// the peer carried on after the timeout: only the message whose transfer was in
			// progress when the deadline expired is "cut"; what an implementation that keeps the
			// connection makes of later messages is not this property's subject
			start := 0
			for _, st := range cv.Steps {
				if st.Msg == k {
					break
				}
				start += len(st.B)
			}
			first := true
			for j := 0; j < k; j++ {
				if c.Cut < complete[j] {
					first = false
				}
			}
			if !first || c.Cut < start {
				break
			}
		}
		if !isComplete {
			if d.B == "EOF" || d.B == "" {
				transfer := "data"
				if cv.Steps[stepOfMsg(cv, k)].B[0] == 'B' {
					transfer = "bdat"
				}
				fail("C07:truncated-message-clean-eof:"+transfer, fmt.Sprintf("message %d was cut before its end (complete at %d) but the backend's reader ended with %q after %d octets", k, complete[k], d.B, len(d.A)))
				return
			}
			if d.Err == "" {
				fail("C07:backend-result", "harness: backend returned nil for a failed read")
				return
			}
		}
		if d.B == "EOF" && d.A != string(cv.Msgs[k]) {
			fail("C07:eof-before-all-octets", fmt.Sprintf("reader reported EOF after %q, full message is %q", d.A, cv.Msgs[k]))
			return
		}
	}
	// replies: those beyond what the completely received steps account for must not be positive
	// when the partially received step carries message octets.
	expected := 1 // greeting
	off := 0
	partialCarriesMsg := false
	for _, s := range cv.Steps {
		if off+len(s.B) <= c.Cut {
			expected += s.NRep
			off += len(s.B)
			continue
		}
		// s is the first step not received in full. Its reply (if any) is judged only when it
		// is the step that would complete a message and the server can know that it is
		// incomplete: a DATA stream at any point; a LAST chunk once its command line is in.
		if s.Msg >= 0 && s.Completes && c.Cut < complete[s.Msg] {
			if s.B[0] != 'B' {
				partialCarriesMsg = true
			} else if i := bytes.IndexByte(s.B, '\n'); i >= 0 && c.Cut >= off+i+1 {
				partialCarriesMsg = true
			}
		}
		break
	}
	if partialCarriesMsg {
		for i := expected; i < len(replies); i++ {
			if c.Kind == "deadline" && i > expected {
				break // the peer carried on: later replies may answer later commands
			}
			if replies[i].Class() == 2 {
				fail("C07:positive-reply-for-incomplete-message", fmt.Sprintf("reply #%d (%s) is positive although the message it answers was not received in full", i, replies[i]))
				return
			}
		}
	}
	cls := fmt.Sprintf("%s/%s/%v", cv.Mode, c.Kind, incomplete)
	if ctx.WantSample(cls) {
		var terms []string
		for _, d := range des {
			terms = append(terms, fmt.Sprintf("%d octets, %s", len(d.A), d.B))
		}
		ctx.Sample(cls, map[string]any{"conv": cv.Name, "cut": c.Cut, "of": len(all), "kind": c.Kind, "seg": c.Seg, "readers": terms, "replies": codes(replies)})
	}
}

func stepOfMsg(cv conv, k int) int {
	for i, s := range cv.Steps {
		if s.Msg == k {
			return i
		}
	}
	return 0
}

func c07Abandon(ctx *core.Ctx, c c07Case) {
	ctx.Eval(fmt.Sprintf("abandon|%s|%d|%s|%s", c.Abandon, c.Chunks, c.Seg, c.Mode), true)
	rig := newRig(c.Mode, nil)
	rig.BE.H.Data = func(sess int, r *rec.Reader, st smtp.StatusCollector) error {
		err := r.ReadAll(64)
		if err != nil && err.Error() == "EOF" {
			return nil
		}
		return err
	}
	p := rig.Dial()
	nr := 1
	pre := c.Mode.hello() + "\r\nMAIL FROM:<s@x.test>\r\nRCPT TO:<r0@x.test>\r\n"
	if c.Mode.lmtp() {
		pre += "RCPT TO:<r1@x.test>\r\n"
		nr = 2
	}
	for i := 0; i < c.Chunks; i++ {
		pre += "BDAT 6\r\nabc\r\n."
	}
	if c.Chunks == 0 {
		// the transfer is opened by a zero-size non-LAST chunk
		pre += "BDAT 0\r\n"
	}
	sendPrefix(p, []byte(pre), c.Seg)
	nchunkReplies := c.Chunks
	if c.Chunks == 0 {
		nchunkReplies = 1
	}
	head, err := expect(p, 3+nr+nchunkReplies)
	if err != nil {
		p.Close()
		rig.Finish()
		if isWatchdog(err) {
			ctx.Inconclusive("C07 abandon watchdog")
			return
		}
		ctx.Violate("C07:abandon-preamble", fmt.Sprintf("preamble failed: %v %s", err, codes(head)), c, witness(rig.Log, head))
		return
	}
	var tail []wire.Reply
	switch c.Abandon {
	case "RSET", "QUIT":
		r, _ := p.Cmd(c.Abandon)
		tail = append(tail, r)
	case "HELLO":
		r, _ := p.Cmd(c.Mode.hello())
		tail = append(tail, r)
	case "disconnect":
		p.Close()
	case "srvclose":
		rig.CloseBounded()
	}
	if c.Abandon == "RSET" || c.Abandon == "HELLO" {
		r, _ := p.Cmd("QUIT")
		tail = append(tail, r)
	}
	p.Close()
	fin := rig.Finish()
	ends := waitDataEnds(rig.Log)
	if !fin || !ends {
		ctx.Inconclusive("C07 abandon watchdog")
		return
	}
	ev := rig.Log.Events()
	ctx.Add("backend_events", countBackendEvents(ev))
	des := dataEnds(ev)
	fail := func(sig, msg string) {
		ctx.Violate(sig, msg+fmt.Sprintf(" [abandon=%s chunks=%d seg=%s mode=%s]", c.Abandon, c.Chunks, c.Seg, c.Mode), c, witness(rig.Log, append(head, tail...)))
	}
	if len(des) > 1 {
		fail("C07:abandon-data-calls", fmt.Sprintf("%d Data calls for one abandoned transfer", len(des)))
		return
	}
	for _, d := range des {
		if d.B == "EOF" || d.B == "" {
			fail("C07:abandoned-transfer-clean-eof:"+c.Abandon, fmt.Sprintf("transfer abandoned by %s without a LAST chunk, but the backend's reader ended with %q after %d octets", c.Abandon, d.B, len(d.A)))
			return
		}
	}
	for _, r := range tail {
		if r.Class() == 2 && len(r.Lines) > 0 && (r.Code == 250 && (c.Abandon == "QUIT")) {
			fail("C07:abandon-positive-final", fmt.Sprintf("unexpected reply %s", r))
		}
	}
	cls := "abandon/" + c.Abandon
	if ctx.WantSample(cls) {
		var terms []string
		for _, d := range des {
			terms = append(terms, fmt.Sprintf("%d octets, %s", len(d.A), d.B))
		}
		ctx.Sample(cls, map[string]any{"abandon": c.Abandon, "chunks": c.Chunks, "mode": c.Mode, "readers": terms, "replies": codes(tail)})
	}
}
