package props

import (
	"encoding/json"
	"fmt"
	"strings"

	"verifharness/core"
)

// C03 — backend callbacks follow RFC 5321 transaction order; envelopes never leak.

func init() {
	register(&Prop{ID: "C03", Run: c03Run, Replay: func(ctx *core.Ctx, raw json.RawMessage) error {
		return core.ReplayCase(ctx, raw, c03Exec)
	}})
}

func histPrefixes(mode srvMode) [][]string {
	h := "EHLO"
	if mode.lmtp() {
		h = "LHLO"
	}
	return [][]string{
		{},
		{h},
		{h, "MAIL"},
		{h, "MAIL", "RCPT"},
		{h, "MAIL", "RCPT_REJ"},
		{h, "MAIL", "RCPT", "BDAT"},
		{h, "MAIL", "RCPT", "DATA"},
		{h, "MAIL", "RCPT", "DATA_REJ"},
		{h, "STARTTLS"},
		{h, "MAIL_BIN_REJ", "MAIL", "RCPT"},
	}
}

type histConf struct {
	Mode     srvMode
	MaxRcpt  int
	MaxBytes int64
}

var histConfs = []histConf{{modeSMTP, 0, 0}, {modeSMTP, 2, 0}, {modeLMTPRcpt, 0, 0}, {modeLMTPRcpt, 2, 0}, {modeSMTP, 0, histLimit}, {modeLMTPRcpt, 2, histLimit}}

// histGenerate emits the shared history workload: exhaustive short suffixes after each prefix
// state, then seeded longer histories.
func histGenerate(ctx *core.Ctx, exhaustLen, nSeeded, maxLen int, stream uint64, emit func(hcase)) {
	for _, cf := range histConfs {
		for _, pre := range histPrefixes(cf.Mode) {
			core.Strings(histAlphabet, exhaustLen, func(parts []string) {
				h := append(append([]string{}, pre...), parts...)
				emit(hcase{Mode: cf.Mode, MaxRcpt: cf.MaxRcpt, MaxBytes: cf.MaxBytes, Hist: h, Disc: "lock"})
			})
		}
	}
	// weights: envelope commands are more frequent so that transactions actually form
	var weighted []string
	for _, a := range histAlphabet {
		w := 1
		switch a {
		case "MAIL", "RCPT", "DATA", "BDAT", "BDAT_LAST":
			w = 5
		case "EHLO", "LHLO", "RSET", "RCPT_REJ", "DATA_REJ", "BDAT_LAST_REJ", "BDAT_FAIL", "BDAT_FAIL_LAST", "BDAT0_LAST", "MAIL_BIN_REJ":
			w = 2
		}
		for ; w > 0; w-- {
			weighted = append(weighted, a)
		}
	}
	for i := 0; i < nSeeded; i++ {
		r := core.NewRand(ctx.Seed, stream, uint64(i))
		cf := histConfs[r.Intn(len(histConfs))]
		n := 3 + r.Intn(maxLen-2)
		var h []string
		if r.Chance(3, 4) {
			if cf.Mode.lmtp() {
				h = append(h, "LHLO")
			} else {
				h = append(h, "EHLO")
			}
		}
		for len(h) < n {
			h = append(h, weighted[r.Intn(len(weighted))])
		}
		emit(hcase{Mode: cf.Mode, MaxRcpt: cf.MaxRcpt, MaxBytes: cf.MaxBytes, Hist: h, Disc: "lock"})
	}
}

func c03Run(ctx *core.Ctx) {
	exLen, nSeeded, maxLen := 2, 90000, 16
	if ctx.Thorough() {
		exLen, nSeeded, maxLen = 3, 2500000, 24
	}
	ctx.Rule = fmt.Sprintf("lock-step command histories over %d abstract commands (valid / backend-rejected / malformed / out-of-order variants of HELO EHLO LHLO MAIL (also BODY=BINARYMIME) RCPT DATA BDAT RSET NOOP VRFY AUTH STARTTLS QUIT unknown): ALL histories of length <=%d appended to each of 10 prefix states (fresh, greeted, MAIL accepted, RCPT accepted, RCPT rejected, mid-BDAT, after finished DATA, after failed DATA, after STARTTLS, envelope opened after a refused BINARYMIME sender) in 6 configurations ({SMTP, LMTP} x MaxRecipients {0,2}, and two with MaxMessageBytes=1000 where the *_BIG commands exceed the limit), plus %d seeded histories of length 3..%d; a transaction-monitor automaton driven by the observed replies judges every callback. Non-trivial: at least three backend callbacks were observed; distinct by (configuration, history).", len(histAlphabet), exLen, nSeeded, maxLen)
	ctx.Assumptions = []string{"a second MAIL inside an open transaction taints the transaction (not judged)", "Reset is required only when a sender had been accepted", "lock-step: the next command is sent only when the server is parked waiting for input"}
	core.RunCases(ctx, func(emit func(hcase)) {
		histGenerate(ctx, exLen, nSeeded, maxLen, 31, emit)
	}, c03Exec)
}

func c03Exec(ctx *core.Ctx, h hcase) {
	histJudge(ctx, h, "C03:")
}

// histJudge executes h in lock-step and reports the violations whose signature starts with prefix.
func histJudge(ctx *core.Ctx, h hcase, prefix string) *histRun {
	run := histExecLock(h)
	nb := countBackendEvents(run.Ev)
	ctx.Eval(h.key(), nb >= 3)
	if run.Inconcl != "" {
		ctx.Inconclusive(prefix + " " + run.Inconcl + " hist=" + strings.Join(h.Hist, ","))
		return nil
	}
	ctx.Add("backend_events", nb)
	ctx.Add("replies_parsed", int64(len(run.All)))
	ctx.Add("commands_executed", int64(len(run.Obs)))
	seen := map[string]bool{}
	for _, v := range histMonitor(run) {
		if !strings.HasPrefix(v.Sig, prefix) || seen[v.Sig] {
			continue
		}
		seen[v.Sig] = true
		ctx.Violate(v.Sig, v.Msg+fmt.Sprintf(" [mode=%s maxrcpt=%d maxbytes=%d hist=%s]", h.Mode, h.MaxRcpt, h.MaxBytes, strings.Join(h.Hist, ",")), h, witness(run.Log, run.All))
	}
	cls := fmt.Sprintf("%s/%d", h.Mode, h.MaxRcpt)
	if len(h.Hist) >= 5 && ctx.WantSample(cls) {
		var cb []string
		for _, e := range run.Ev {
			if e.Ph == "b" && e.Sess != 0 {
				cb = append(cb, e.Kind+"("+e.A+")")
			}
		}
		ctx.Sample(cls, map[string]any{"mode": h.Mode, "max_rcpt": h.MaxRcpt, "history": h.Hist, "reply_codes": codes(run.All), "callbacks": cb})
	}
	return run
}
