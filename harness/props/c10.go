package props

import (
	"bytes"
	"crypto/tls"
	"encoding/json"
	"fmt"
	"io"
	"net"
	"os"
	"path/filepath"
	"strings"
	"sync"
	"time"

	"github.com/emersion/go-sasl"
	smtp "github.com/emersion/go-smtp"

	"verifharness/core"
	"verifharness/rec"
	"verifharness/wire"
)

// C10 — STARTTLS discards all plaintext state and input, on server and client.

type c10Case struct {
	Kind string `json:"kind"` // srv | cli | dial

	// srv
	Pre     string `json:"pre"`     // fresh greeted authed mail rcpt bdat
	Inject  string `json:"inject"`  // "" MAIL ENVELOPE GARBAGE
	SameSeg bool   `json:"sameseg"` // injected octets share the segment with STARTTLS
	LMTP    bool   `json:"lmtp"`

	// cli / dial
	Fake string `json:"fake"` // nostarttls 454 garbage injected good untrusted
	API  string `json:"api"`  // NewClientStartTLS DialStartTLS SendMail SendMailTLS
}

func init() {
	register(&Prop{ID: "C10", Run: c10Run, Replay: func(ctx *core.Ctx, raw json.RawMessage) error {
		c10Setup()
		return core.ReplayCase(ctx, raw, c10Exec)
	}})
}

var c10Once sync.Once

// c10Setup makes the harness CA the system root store of this process (SendMail and
// DialStartTLS with a nil config verify against system roots).
func c10Setup() {
	c10Once.Do(func() {
		dir := os.Getenv("VERIF_DIR")
		if dir == "" {
			dir = "/verif"
		}
		f := filepath.Join(dir, "out", fmt.Sprintf("c10-ca-%d.pem", os.Getpid()))
		os.MkdirAll(filepath.Dir(f), 0o755)
		if err := os.WriteFile(f, wire.CAPEM(), 0o644); err == nil {
			os.Setenv("SSL_CERT_FILE", f)
			os.Setenv("SSL_CERT_DIR", "/nonexistent")
		}
	})
}

func c10Run(ctx *core.Ctx) {
	c10Setup()
	ctx.Rule = "server: pre-STARTTLS histories {fresh, greeted, authenticated, MAIL, MAIL+RCPT, mid-BDAT} x plaintext injected behind the STARTTLS command {none, MAIL, MAIL+RCPT+DATA+body, garbage} x {same segment, following segment} x {SMTP, LMTP}, then probes inside TLS (MAIL before EHLO, EHLO, AUTH, RCPT/DATA without MAIL); client: NewClientStartTLS over the in-memory transport and DialStartTLS / SendMail / SendMailTLS over loopback TCP against scripted servers {no STARTTLS offered, 454, 220 then garbage, 220 with injected plaintext replies and capabilities, certificate not trusted, good}. Oracles: backend event log (bait addresses, Logout, NewSession TLS state), TLS record-framing monitor and plaintext-token scan on the raw client->server tap, capability view of the client after the upgrade. Non-trivial: every case; distinct by case."
	ctx.Assumptions = []string{"the harness CA is installed as this process's system root store through SSL_CERT_FILE", "reply count after a failed TLS handshake is not judged"}
	core.RunCases(ctx, func(emit func(c10Case)) {
		nrep := 3
		if ctx.Thorough() {
			nrep = 300
		}
		for rep := 0; rep < nrep; rep++ {
			for _, pre := range []string{"fresh", "greeted", "authed", "mail", "rcpt", "bdat"} {
				for _, inj := range []string{"", "MAIL", "ENVELOPE", "GARBAGE", "LONGRUN"} {
					for _, same := range []bool{true, false} {
						for _, lm := range []bool{false, true} {
							if rep > 0 && !ctx.Thorough() && inj == "" {
								continue
							}
							emit(c10Case{Kind: "srv", Pre: pre, Inject: inj, SameSeg: same, LMTP: lm, API: fmt.Sprint(rep)})
						}
					}
				}
			}
		}
		crep := 8
		if ctx.Thorough() {
			crep = 300
		}
		for rep := 0; rep < crep; rep++ {
			for _, fk := range []string{"nostarttls", "454", "garbage", "injected", "good", "goodbare", "injectedbare", "helofallbackbare"} {
				emit(c10Case{Kind: "cli", Fake: fk, API: "NewClientStartTLS", Pre: fmt.Sprint(rep)})
			}
			for _, api := range []string{"DialStartTLS", "SendMail", "SendMailTLS"} {
				for _, fk := range []string{"nostarttls", "454", "garbage", "good", "untrusted"} {
					emit(c10Case{Kind: "dial", Fake: fk, API: api, Pre: fmt.Sprint(rep)})
				}
			}
		}
	}, c10Exec)
}

func c10Exec(ctx *core.Ctx, c c10Case) {
	switch c.Kind {
	case "srv":
		c10Srv(ctx, c)
	case "cli":
		c10Cli(ctx, c)
	case "dial":
		c10Dial(ctx, c)
	}
}

func c10Srv(ctx *core.Ctx, c c10Case) {
	ctx.Eval(fmt.Sprintf("srv|%s|%s|%v|%v|%s", c.Pre, c.Inject, c.SameSeg, c.LMTP, c.API), true)
	kind := rec.Auth
	if c.LMTP {
		kind = rec.AuthLMTP
	}
	rig := wire.NewRig(kind, func(s *smtp.Server) {
		s.LMTP = c.LMTP
		s.TLSConfig = wire.ServerTLS()
		s.AllowInsecureAuth = true
	})
	gate := rec.NewGate()
	defer gate.OpenAll()
	rig.BE.H.AuthMechs = func(int) []string { return []string{"VERIF"} }
	rig.BE.H.Auth = func(sess int, mech string) (sasl.Server, error) { return &verifMech{}, nil }
	rig.BE.H.Data = func(sess int, r *rec.Reader, st smtp.StatusCollector) error {
		r.ReadN(8, 8)
		if strings.HasPrefix(string(r.Got), "park") {
			gate.Wait("d1")
		}
		err := r.ReadAll(64)
		if err != nil && err.Error() != "EOF" {
			return err
		}
		return nil
	}
	hello := "EHLO"
	if c.LMTP {
		hello = "LHLO"
	}
	p := rig.Dial()
	var all []wire.Reply
	failed := false
	fail := func(sig, msg string) {
		failed = true
		ctx.Violate(sig, msg+fmt.Sprintf(" [pre=%s inject=%q sameseg=%v lmtp=%v]", c.Pre, c.Inject, c.SameSeg, c.LMTP), c, witness(rig.Log, all))
	}
	cmd := func(line string) wire.Reply {
		p.SendStr(line + "\r\n")
		rs, _ := p.ReadUntilStall()
		all = append(all, rs...)
		ctx.Add("replies_parsed", int64(len(rs)))
		if len(rs) == 0 {
			return wire.Reply{}
		}
		return rs[len(rs)-1]
	}
	finish := func() {
		gate.OpenAll()
		p.Close()
		rig.Finish()
		waitDataEnds(rig.Log)
	}
	g, _ := p.ReadReply()
	all = append(all, g)
	var pre []string
	switch c.Pre {
	case "greeted":
		pre = []string{hello + " plain.test"}
	case "authed":
		pre = []string{hello + " plain.test", "AUTH VERIF b2s="}
	case "mail":
		pre = []string{hello + " plain.test", "MAIL FROM:<plain-s@x.test>"}
	case "rcpt":
		pre = []string{hello + " plain.test", "MAIL FROM:<plain-s@x.test>", "RCPT TO:<plain-r@x.test>"}
	case "bdat":
		pre = []string{hello + " plain.test", "MAIL FROM:<plain-s@x.test>", "RCPT TO:<plain-r@x.test>"}
	}
	for _, l := range pre {
		if r := cmd(l); r.Class() != 2 {
			fail("C10:preamble", fmt.Sprintf("%q answered %s", l, r))
			finish()
			return
		}
	}
	if c.Pre == "bdat" {
		p.SendStr("BDAT 8\r\n")
		p.SendStr("parkdata")
		rs, _ := p.ReadUntilStall()
		all = append(all, rs...)
		gate.WaitParked("d1")
	}
	inject := ""
	switch c.Inject {
	case "MAIL":
		inject = "MAIL FROM:<inject-1@x.test>\r\n"
	case "ENVELOPE":
		inject = hello + " injected.test\r\nMAIL FROM:<inject-1@x.test>\r\nRCPT TO:<inject-2@x.test>\r\nDATA\r\ninjected-body\r\n.\r\n"
	case "GARBAGE":
		inject = "\x00\x01garbage without line end"
	case "LONGRUN":
		// nearly a full line of plaintext without a line end: it is discarded with the rest of the
		// plaintext buffer and must not count towards the first line of the TLS session
		inject = strings.Repeat("j", 1900)
	}
	mark := rig.Log.Len()
	if c.SameSeg {
		p.SendStr("STARTTLS\r\n" + inject)
	} else {
		p.SendStr("STARTTLS\r\n")
	}
	r, err := p.ReadReply()
	all = append(all, r)
	if err != nil || r.Code != 220 {
		fail("C10:starttls-refused", fmt.Sprintf("STARTTLS answered %s (%v)", r, err))
		finish()
		return
	}
	if !c.SameSeg && inject != "" {
		p.SendStr(inject) // plaintext arriving after the 220: must never be interpreted
	}
	hsErr := p.StartTLSClient()
	upgraded := hsErr == nil
	if upgraded {
		p.Raw.WaitPeerIdle(wire.Watchdog)
		// probes inside TLS
		early := "MAIL FROM:<tls-early@x.test>"
		if c.Inject == "LONGRUN" {
			early = "MAIL FROM:<tls-early-" + strings.Repeat("e", 150) + "@x.test>"
		}
		if r := cmd(early); r.Class() == 2 {
			fail("C10:greeting-remembered", fmt.Sprintf("MAIL inside TLS before a new greeting answered %s", r))
		} else if r.Code == 0 || (r.Code == 500 && strings.Contains(r.Text(), "5.4.0")) {
			fail("C10:plaintext-counted-inside-tls", fmt.Sprintf("the first command line of the TLS session (%d octets, limit 2000) answered %s: plaintext octets sent behind STARTTLS decide the fate of a TLS command", len(early)+2, r))
		}
		if r := cmd("RCPT TO:<tls-early-r@x.test>"); r.Class() == 2 && !failed {
			fail("C10:envelope-remembered", fmt.Sprintf("RCPT inside TLS without MAIL answered %s", r))
		}
		e := cmd(hello + " tls.test")
		if e.Class() != 2 && !failed {
			fail("C10:ehlo-after-upgrade", fmt.Sprintf("%s inside TLS answered %s", hello, e))
		}
		if !failed {
			if r := cmd("RCPT TO:<tls-r0@x.test>"); r.Class() == 2 {
				fail("C10:envelope-remembered", fmt.Sprintf("RCPT inside TLS after the new greeting but without MAIL answered %s", r))
			}
		}
		if !failed {
			p.SendStr("DATA\r\n")
			rs, _ := p.ReadUntilStall()
			all = append(all, rs...)
			if len(rs) > 0 && rs[0].Code == 354 {
				fail("C10:envelope-remembered", "DATA inside TLS without a new MAIL/RCPT answered 354")
				p.SendStr("x\r\n.\r\n")
				p.ReadUntilStall()
			}
		}
		if !failed {
			p.SendStr("BDAT 2 LAST\r\n")
			p.SendStr("zz")
			rs, _ := p.ReadUntilStall()
			all = append(all, rs...)
			if len(rs) > 0 && rs[0].Class() == 2 {
				fail("C10:envelope-remembered", "BDAT inside TLS without a new MAIL/RCPT was accepted")
			}
		}
		if !failed {
			if r := cmd("AUTH VERIF b2s="); r.Code == 503 {
				fail("C10:authentication-remembered", "AUTH inside TLS answered 503: plaintext authentication survived STARTTLS")
			} else if r.Code != 235 {
				fail("C10:auth-after-upgrade", fmt.Sprintf("AUTH inside TLS answered %s", r))
			}
		}
		if !failed {
			if r := cmd("MAIL FROM:<tls-s@x.test>"); r.Code != 250 {
				fail("C10:mail-after-upgrade", fmt.Sprintf("MAIL inside TLS answered %s", r))
			}
		}
		cmd("QUIT")
	}
	finish()
	ev := rig.Log.Events()
	ctx.Add("backend_events", countBackendEvents(ev))
	if failed {
		return
	}
	// event-log oracle
	oldSess := 0
	if c.Pre != "fresh" {
		oldSess = 1
	}
	logoutOld := 0
	afterLogout := false
	newSessions := 0
	for _, e := range ev {
		if e.Ph != "b" && e.Kind != "NewSession" {
			continue
		}
		if (e.Kind == "Mail" || e.Kind == "Rcpt") && strings.HasPrefix(e.A, "inject") {
			fail("C10:plaintext-injection-executed", fmt.Sprintf("plaintext pipelined behind STARTTLS was executed: %s(%q)", e.Kind, e.A))
			return
		}
		if e.Kind == "NewSession" && e.Ph == "b" && e.A == "injected.test" {
			fail("C10:plaintext-injection-executed", "the injected plaintext greeting created a session")
			return
		}
		if e.Sess == oldSess && oldSess != 0 && e.Ph == "b" {
			if e.Kind == "Logout" {
				logoutOld++
				afterLogout = true
			} else if afterLogout && e.Seq > mark && !(e.Kind == "Data" || e.Kind == "LMTPData") {
				fail("C10:old-session-used-after-upgrade", fmt.Sprintf("%s on the plaintext session after its Logout", e.Kind))
				return
			}
		}
		if e.Kind == "NewSession" && e.Ph == "b" && e.Seq > mark {
			newSessions++
			if e.N != 1 {
				fail("C10:new-session-without-tls", "the session created after STARTTLS does not see the TLS state")
				return
			}
			if e.A != "tls.test" {
				fail("C10:new-session-hostname", fmt.Sprintf("the session created after STARTTLS sees greeting name %q", e.A))
				return
			}
		}
		if upgraded && e.Seq > mark && e.Sess == oldSess && oldSess != 0 && (e.Kind == "Mail" || e.Kind == "Rcpt" || e.Kind == "Auth") {
			fail("C10:old-session-used-after-upgrade", fmt.Sprintf("%s(%q) reached the plaintext session after STARTTLS", e.Kind, e.A))
			return
		}
	}
	if upgraded {
		if oldSess != 0 && logoutOld != 1 {
			fail("C10:plaintext-session-logout", fmt.Sprintf("the plaintext session received %d Logout calls", logoutOld))
			return
		}
		if newSessions != 1 {
			fail("C10:new-session-count", fmt.Sprintf("%d sessions were created inside TLS (expected 1)", newSessions))
			return
		}
	} else if c.SameSeg || inject == "" {
		fail("C10:handshake-failed", fmt.Sprintf("TLS handshake failed although nothing followed the 220 on the wire: %v", hsErr))
		return
	}
	cls := fmt.Sprintf("srv/%s/%s", c.Pre, c.Inject)
	if ctx.WantSample(cls) {
		ctx.Sample(cls, map[string]any{"pre": c.Pre, "inject": c.Inject, "same_segment": c.SameSeg, "upgraded": upgraded, "replies": codes(all)})
	}
}

// tlsFraming checks that b consists of TLS records only (possibly ending in a partial one).
func tlsFraming(b []byte) string {
	for len(b) > 0 {
		if b[0] < 20 || b[0] > 23 {
			return fmt.Sprintf("octet 0x%02x where a TLS record type (20..23) was expected", b[0])
		}
		if len(b) < 5 {
			return ""
		}
		if b[1] != 3 {
			return fmt.Sprintf("TLS record version 0x%02x%02x", b[1], b[2])
		}
		n := int(b[3])<<8 | int(b[4])
		if n > 16384+2048 {
			return fmt.Sprintf("TLS record length %d", n)
		}
		if len(b) < 5+n {
			return ""
		}
		b = b[5+n:]
	}
	return ""
}

var c10Secrets = []string{"MAIL FROM", "RCPT TO", "AUTH ", "secret-password", "secret-user", "BODY-ID-7731", "s3nder@x.test", "r3cipient@x.test"}

func c10Scan(raw []byte) string {
	for _, s := range c10Secrets {
		if bytes.Contains(raw, []byte(s)) {
			return s
		}
	}
	return ""
}

// c10FakeScript is the scripted peer for the client-side cases; it works on any net.Conn.
// It returns everything it read raw.
func c10FakeScript(conn net.Conn, fake string, implicit bool) (raw []byte, insideTLS []string) {
	return c10FakeScriptWith(conn, fake, implicit, wire.ServerTLS())
}

func c10FakeScriptWith(conn net.Conn, fake string, implicit bool, cfg *tls.Config) (raw []byte, insideTLS []string) {
	var mu sync.Mutex
	tee := &teeConn{Conn: conn, mu: &mu}
	defer func() { mu.Lock(); raw = append([]byte{}, tee.got...); mu.Unlock() }()
	var rw io.ReadWriter = tee
	serveInner := func(c io.ReadWriter, tlsOn bool) {
		buf := make([]byte, 0, 4096)
		readLine := func() (string, bool) {
			for {
				if i := bytes.IndexByte(buf, '\n'); i >= 0 {
					l := strings.TrimRight(string(buf[:i]), "\r")
					buf = buf[i+1:]
					return l, true
				}
				tmp := make([]byte, 2048)
				n, err := c.Read(tmp)
				buf = append(buf, tmp[:n]...)
				if err != nil && n == 0 {
					return "", false
				}
			}
		}
		w := func(s string) { c.Write([]byte(s)) }
		w("220 fake.test ESMTP\r\n")
		inData := false
		for {
			l, ok := readLine()
			if !ok {
				return
			}
			if tlsOn {
				insideTLS = append(insideTLS, l)
			}
			if inData {
				if l == "." {
					inData = false
					w("250 2.0.0 queued\r\n")
				}
				continue
			}
			up := strings.ToUpper(l)
			switch {
			case strings.HasPrefix(up, "EHLO"):
				if tlsOn && fake == "helofallbackbare" {
					w("502 5.5.1 EHLO not implemented here\r\n") // inside TLS only HELO works
				} else if tlsOn && strings.HasSuffix(fake, "bare") {
					w("250 fake.test\r\n") // no extensions at all inside TLS
				} else if tlsOn {
					w("250-fake.test\r\n250-AUTH PLAIN\r\n250 SIZE 2000\r\n")
				} else if fake == "nostarttls" {
					w("250-fake.test\r\n250-AUTH PLAIN\r\n250-DSN\r\n250 SIZE 1000\r\n")
				} else {
					w("250-fake.test\r\n250-STARTTLS\r\n250-AUTH PLAIN LOGIN\r\n250-DSN\r\n250-SMTPUTF8\r\n250 SIZE 1000\r\n")
				}
			case strings.HasPrefix(up, "HELO"):
				w("250 fake.test\r\n")
			case up == "STARTTLS":
				switch fake {
				case "454":
					w("454 4.7.0 TLS not available\r\n")
				case "garbage":
					w("220 2.0.0 go ahead\r\nthis is not a TLS handshake at all, just text\r\n")
					// keep reading what the client sends
				case "injected", "injectedbare":
					w("220 2.0.0 go ahead\r\n250-evil.test\r\n250-DSN\r\n250-SMTPUTF8\r\n250 SIZE 99999\r\n")
					fallthrough
				default:
					if !strings.HasPrefix(fake, "injected") {
						w("220 2.0.0 go ahead\r\n")
					}
					tc := tls.Server(tee, cfg)
					if err := tc.Handshake(); err != nil {
						return
					}
					// inner conversation
					innerBuf := buf
					_ = innerBuf
					buf = buf[:0]
					c = tc
					tlsOn = true
					w = func(s string) { tc.Write([]byte(s)) }
					continue
				}
			case strings.HasPrefix(up, "AUTH"):
				w("235 2.7.0 ok\r\n")
			case strings.HasPrefix(up, "MAIL"), strings.HasPrefix(up, "RCPT"), up == "RSET", up == "NOOP":
				w("250 2.0.0 ok\r\n")
			case up == "DATA":
				w("354 go\r\n")
				inData = true
			case up == "QUIT":
				w("221 2.0.0 bye\r\n")
				return
			default:
				w("500 5.5.1 what\r\n")
			}
		}
	}
	if implicit {
		tc := tls.Server(tee, cfg)
		if err := tc.Handshake(); err != nil {
			return
		}
		serveInner(tc, true)
		return
	}
	serveInner(rw, false)
	return
}

type teeConn struct {
	net.Conn
	mu  *sync.Mutex
	got []byte
}

func (t *teeConn) Read(p []byte) (int, error) {
	n, err := t.Conn.Read(p)
	t.mu.Lock()
	t.got = append(t.got, p[:n]...)
	t.mu.Unlock()
	return n, err
}

// c10Judge applies the wire oracles to what the client wrote raw.
func c10Judge(raw []byte) (sig, msg string) {
	i := bytes.Index(raw, []byte("STARTTLS\r\n"))
	if i < 0 {
		if s := c10Scan(raw); s != "" {
			return "C10:client-plaintext-leak", fmt.Sprintf("%q was sent in plaintext although TLS was never started", s)
		}
		return "", ""
	}
	plain, after := raw[:i], raw[i+10:]
	if s := c10Scan(plain); s != "" {
		return "C10:client-plaintext-leak", fmt.Sprintf("%q was sent in plaintext before STARTTLS", s)
	}
	if f := tlsFraming(after); f != "" {
		return "C10:client-plaintext-after-starttls", fmt.Sprintf("after STARTTLS the client wrote octets that are not TLS records: %s (first octets %q)", f, clipStr(string(after), 60))
	}
	if s := c10Scan(after); s != "" {
		return "C10:client-plaintext-leak", fmt.Sprintf("%q visible on the raw socket after STARTTLS", s)
	}
	return "", ""
}

func c10Cli(ctx *core.Ctx, c c10Case) {
	ctx.Eval(fmt.Sprintf("cli|%s|%s|%s", c.Fake, c.API, c.Pre), true)
	var raw []byte
	var inside []string
	f := wire.NewFake(func(f *wire.Fake) {
		raw, inside = c10FakeScript(f.Srv, c.Fake, false)
	})
	cfg := wire.ClientTLS()
	cl, err := smtp.NewClientStartTLS(f.Client, cfg)
	var mailErr error
	var extDSN, extUTF8 bool
	var size int
	if err == nil && cl != nil {
		extDSN, _ = cl.Extension("DSN")
		extUTF8, _ = cl.Extension("SMTPUTF8")
		size, _ = cl.MaxMessageSize()
		mailErr = cl.Mail("s3nder@x.test", &smtp.MailOptions{Return: smtp.DSNReturnFull, EnvelopeID: "env1"})
		if mailErr == nil {
			cl.Rcpt("r3cipient@x.test", nil)
			if w, derr := cl.Data(); derr == nil {
				w.Write([]byte("BODY-ID-7731\r\n"))
				w.Close()
			}
		}
		cl.Quit()
		cl.Close()
	}
	f.Close()
	f.Wait()
	ctx.Add("raw_octets_scanned", int64(len(raw)))
	fail := func(sig, msg string) {
		ctx.Violate(sig, msg+fmt.Sprintf(" [fake=%s api=%s]", c.Fake, c.API), c, append(f.Log.Strings(40), fmt.Sprintf("inside TLS the fake server received: %q", inside)))
	}
	if sig, msg := c10Judge(raw); sig != "" {
		fail(sig, msg)
		return
	}
	switch c.Fake {
	case "nostarttls", "454":
		if err == nil {
			fail("C10:client-continues-without-tls", fmt.Sprintf("NewClientStartTLS returned a client although STARTTLS was %s", c.Fake))
			return
		}
	case "garbage":
		// crypto/tls handshakes lazily: either the constructor or the first command must fail
		if err == nil && mailErr == nil {
			fail("C10:client-continues-without-tls", "the server answered the TLS handshake with garbage, yet Mail succeeded")
			return
		}
	case "good", "injected", "goodbare", "injectedbare", "helofallbackbare":
		if err != nil {
			fail("C10:client-upgrade-failed", fmt.Sprintf("NewClientStartTLS failed against a correct server: %v", err))
			return
		}
		wantSize := 2000
		if strings.HasSuffix(c.Fake, "bare") {
			wantSize = 0
			if strings.Contains(strings.Join(inside, "\n"), "BODY=8BITMIME") || strings.Contains(strings.Join(inside, "\n"), "SIZE=") {
				fail("C10:client-trusts-plaintext-capabilities", fmt.Sprintf("MAIL inside TLS carries parameters although the TLS EHLO reply listed no extension: %q", inside))
				return
			}
		}
		if extDSN || extUTF8 || size != wantSize {
			fail("C10:client-trusts-plaintext-capabilities", fmt.Sprintf("after the upgrade the client believes DSN=%v SMTPUTF8=%v SIZE=%d; inside TLS the server offered SIZE %d and neither DSN nor SMTPUTF8", extDSN, extUTF8, size, wantSize))
			return
		}
		sawEHLO, mailLine := false, ""
		for _, l := range inside {
			if strings.HasPrefix(l, "EHLO") || strings.HasPrefix(l, "HELO") {
				sawEHLO = true
			}
			if strings.HasPrefix(l, "MAIL") {
				mailLine = l
			}
		}
		if !sawEHLO {
			fail("C10:client-no-ehlo-after-upgrade", "the client did not send EHLO inside TLS")
			return
		}
		if strings.Contains(mailLine, "RET=") || strings.Contains(mailLine, "ENVID=") {
			fail("C10:client-trusts-plaintext-capabilities", fmt.Sprintf("MAIL inside TLS carries DSN parameters that only the plaintext EHLO offered: %q", mailLine))
			return
		}
		if mailErr != nil {
			fail("C10:client-mail-after-upgrade", fmt.Sprintf("Mail inside TLS failed: %v", mailErr))
			return
		}
	}
	if ctx.WantSample("cli/" + c.Fake) {
		ctx.Sample("cli/"+c.Fake, map[string]any{"fake": c.Fake, "error": fmt.Sprint(err), "raw_octets": len(raw), "inside_tls": inside})
	}
}

func c10Dial(ctx *core.Ctx, c c10Case) {
	ctx.Eval(fmt.Sprintf("dial|%s|%s|%s", c.Fake, c.API, c.Pre), true)
	l, err := net.Listen("tcp", "127.0.0.1:0")
	if err != nil {
		ctx.Inconclusive("C10 loopback listen failed: " + err.Error())
		return
	}
	defer l.Close()
	var raw []byte
	var inside []string
	done := make(chan struct{})
	fake := c.Fake
	implicit := c.API == "SendMailTLS"
	go func() {
		defer close(done)
		conn, err := l.Accept()
		if err != nil {
			return
		}
		conn.SetDeadline(time.Now().Add(wire.Watchdog))
		defer conn.Close()
		if fake == "untrusted" {
			// present a certificate the client cannot verify: self-made config with a different name
			raw, inside = c10FakeScriptCfg(conn, "good", implicit, untrustedTLS())
			return
		}
		raw, inside = c10FakeScript(conn, fake, implicit)
	}()
	addr := l.Addr().String()
	auth := sasl.NewPlainClient("", "secret-user", "secret-password")
	var apiErr error
	switch c.API {
	case "DialStartTLS":
		var cl *smtp.Client
		cl, apiErr = smtp.DialStartTLS(addr, nil)
		if apiErr == nil {
			apiErr = cl.Auth(auth)
			if apiErr == nil {
				apiErr = cl.SendMail("s3nder@x.test", []string{"r3cipient@x.test"}, strings.NewReader("BODY-ID-7731\r\n"))
			}
			cl.Quit()
			cl.Close()
		}
	case "SendMail":
		apiErr = smtp.SendMail(addr, auth, "s3nder@x.test", []string{"r3cipient@x.test"}, strings.NewReader("BODY-ID-7731\r\n"))
	case "SendMailTLS":
		apiErr = smtp.SendMailTLS(addr, auth, "s3nder@x.test", []string{"r3cipient@x.test"}, strings.NewReader("BODY-ID-7731\r\n"))
	}
	l.Close()
	select {
	case <-done:
	case <-time.After(wire.Watchdog):
		ctx.Inconclusive("C10 dial: fake server did not finish")
		return
	}
	ctx.Add("raw_octets_scanned", int64(len(raw)))
	fail := func(sig, msg string) {
		ctx.Violate(sig, msg+fmt.Sprintf(" [fake=%s api=%s]", c.Fake, c.API), c, []string{fmt.Sprintf("raw octets received by the fake server: %q", clipStr(string(raw), 600)), fmt.Sprintf("inside TLS: %q", inside), fmt.Sprintf("API error: %v", apiErr)})
	}
	if implicit {
		// everything must be TLS from the first octet
		if f := tlsFraming(raw); f != "" {
			fail("C10:client-plaintext-on-implicit-tls", "SendMailTLS wrote octets that are not TLS records: "+f)
			return
		}
		if s := c10Scan(raw); s != "" {
			fail("C10:client-plaintext-leak", fmt.Sprintf("%q visible on the raw socket", s))
			return
		}
	} else if sig, msg := c10Judge(raw); sig != "" {
		fail(sig, msg)
		return
	}
	good := c.Fake == "good" || (implicit && c.Fake != "untrusted")
	if good {
		if apiErr != nil {
			fail("C10:client-upgrade-failed", fmt.Sprintf("%s failed against a correct server: %v", c.API, apiErr))
			return
		}
		sawMail := false
		for _, l := range inside {
			if strings.HasPrefix(l, "MAIL FROM:<s3nder@x.test>") {
				sawMail = true
			}
		}
		if !sawMail {
			fail("C10:client-upgrade-failed", "the message was not submitted inside TLS")
			return
		}
	} else if apiErr == nil {
		fail("C10:client-continues-without-tls", fmt.Sprintf("%s returned nil although STARTTLS was %s", c.API, c.Fake))
		return
	}
	if ctx.WantSample("dial/" + c.API + "/" + c.Fake) {
		ctx.Sample("dial/"+c.API+"/"+c.Fake, map[string]any{"api": c.API, "fake": c.Fake, "error": fmt.Sprint(apiErr), "raw_octets": len(raw), "lines_inside_tls": len(inside)})
	}
}

var (
	untrustedOnce sync.Once
	untrustedCfg  *tls.Config
)

// untrustedTLS returns a server configuration whose certificate chains to nothing the client trusts.
func untrustedTLS() *tls.Config {
	untrustedOnce.Do(func() { untrustedCfg = wire.SelfSignedTLS("evil.test") })
	return untrustedCfg
}

func c10FakeScriptCfg(conn net.Conn, fake string, implicit bool, cfg *tls.Config) ([]byte, []string) {
	// same as c10FakeScript but with another certificate: swap the shared config for the call
	return c10FakeScriptWith(conn, fake, implicit, cfg)
}
