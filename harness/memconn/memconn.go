// Package memconn is an in-memory, segment-preserving net.Conn used to drive the real
// go-smtp server and client with complete control over segmentation, cuts, read errors and
// (virtual) deadlines. Nothing here sleeps and nothing depends on wall-clock time.
package memconn

import (
	"errors"
	"io"
	"net"
	"os"
	"sync"
	"time"
)

// Tap observes traffic. Dir is "c2s" or "s2c" relative to the pipe's A(client)/B(server) ends.
type Tap interface {
	Wrote(dir string, p []byte)
	Closed(dir string, why string)
}

type half struct {
	mu   *sync.Mutex // shared by both halves of a pipe
	cond *sync.Cond
	peer *half // the opposite direction

	stallDetect bool          // reader gives up with ErrStalled when both ends wait to read
	watchdog    time.Duration // wall-clock bound on one blocked Read (0 = none); expiry = inconclusive

	segs     [][]byte
	wclosed  bool  // writer closed: reader sees werr (io.EOF by default) after draining
	werr     error // error delivered after drain when wclosed
	rclosed  bool  // reader side closed: writes fail, pending reads fail with net.ErrClosed
	coalesce bool

	deadlineSet bool      // a non-zero read deadline is currently armed
	deadlineAt  time.Time // its value (never acted upon: only for inspection)
	fired       bool      // the armed deadline has been fired by the harness

	expired  bool  // the wall-clock watchdog of a blocked Read fired
	parked   int   // readers currently blocked on an empty queue
	consumed int64 // octets handed to the reader
	written  int64 // octets accepted from the writer
	reads    int64
	gen      int64 // bumped on every state change (for waiters)
}

func newHalves() (*half, *half) {
	mu := &sync.Mutex{}
	cond := sync.NewCond(mu)
	a := &half{mu: mu, cond: cond}
	b := &half{mu: mu, cond: cond}
	a.peer, b.peer = b, a
	return a, b
}

// ErrStalled is returned by a Read with stall detection enabled when this end is about to
// wait for input while the peer is itself parked in Read on an empty queue and nothing is in
// flight in either direction: no octet can ever arrive. This is a state-based verdict, not a
// timeout.
var ErrStalled net.Error = stalledErr{}

type stalledErr struct{}

func (stalledErr) Error() string   { return "memconn: stalled (both ends are waiting to read)" }
func (stalledErr) Timeout() bool   { return true } // keeps crypto/tls from making it sticky
func (stalledErr) Temporary() bool { return true }

type timeoutErr struct{}

func (timeoutErr) Error() string   { return "memconn: i/o timeout" }
func (timeoutErr) Timeout() bool   { return true }
func (timeoutErr) Temporary() bool { return true }
func (timeoutErr) Is(target error) bool {
	return target == os.ErrDeadlineExceeded
}

// ErrTimeout is returned by Read when the harness fired the armed read deadline.
var ErrTimeout net.Error = timeoutErr{}

type resetErr struct{}

func (resetErr) Error() string   { return "memconn: connection reset by peer" }
func (resetErr) Timeout() bool   { return false }
func (resetErr) Temporary() bool { return false }

// ErrReset is a non-EOF, non-timeout read error (ECONNRESET flavoured).
var ErrReset net.Error = resetErr{}

func (h *half) read(p []byte) (int, error) {
	h.mu.Lock()
	defer h.mu.Unlock()
	h.reads++
	h.expired = false
	announced := false
	for {
		if h.rclosed {
			return 0, net.ErrClosed
		}
		if h.deadlineSet && h.fired {
			return 0, ErrTimeout
		}
		if len(h.segs) > 0 {
			break
		}
		if h.wclosed {
			if h.werr != nil {
				return 0, h.werr
			}
			return 0, io.EOF
		}
		if h.stallDetect && h.peer.parked > 0 && len(h.peer.segs) == 0 && !h.peer.wclosed && !h.peer.rclosed &&
			!(h.peer.deadlineSet && h.peer.fired) {
			return 0, ErrStalled
		}
		if h.expired {
			h.expired = false
			return 0, ErrWatchdog
		}
		var t *time.Timer
		if h.watchdog > 0 {
			t = time.AfterFunc(h.watchdog, func() {
				h.mu.Lock()
				h.expired = true
				h.cond.Broadcast()
				h.mu.Unlock()
			})
		}
		h.parked++
		if !announced {
			// tell waiters (WaitPeerIdle, the peer's stall check) once that this end is now
			// parked; broadcasting on every wake-up would make two parked ends (they share the
			// condition variable) wake each other for ever
			announced = true
			h.gen++
			h.cond.Broadcast()
		}
		h.cond.Wait()
		h.parked--
		if t != nil {
			t.Stop()
		}
	}
	if len(p) == 0 {
		return 0, nil
	}
	n := 0
	for n < len(p) && len(h.segs) > 0 {
		s := h.segs[0]
		k := copy(p[n:], s)
		n += k
		if k == len(s) {
			h.segs = h.segs[1:]
		} else {
			h.segs[0] = s[k:]
		}
		if !h.coalesce {
			break
		}
	}
	h.consumed += int64(n)
	h.gen++
	h.cond.Broadcast()
	return n, nil
}

func (h *half) write(p []byte) (int, error) {
	h.mu.Lock()
	defer h.mu.Unlock()
	if h.wclosed {
		return 0, io.ErrClosedPipe
	}
	if h.rclosed {
		return 0, io.ErrClosedPipe
	}
	if len(p) == 0 {
		return 0, nil
	}
	b := make([]byte, len(p))
	copy(b, p)
	h.segs = append(h.segs, b)
	h.written += int64(len(p))
	h.gen++
	h.cond.Broadcast()
	return len(p), nil
}

func (h *half) closeWrite(err error) bool {
	h.mu.Lock()
	defer h.mu.Unlock()
	if h.wclosed {
		return false
	}
	h.wclosed = true
	h.werr = err
	h.gen++
	h.cond.Broadcast()
	return true
}

func (h *half) closeRead() {
	h.mu.Lock()
	defer h.mu.Unlock()
	h.rclosed = true
	h.segs = nil
	h.gen++
	h.cond.Broadcast()
}

// Conn is one end of a Pipe.
type Conn struct {
	rd, wr *half
	dir    string // direction of our writes
	name   string
	tap    Tap

	mu     sync.Mutex
	closed bool
	// WriteErr, when set, is returned by every Write (fault injection).
	writeErr error

	blockWrites  bool // a Write waits (peer does not read, window full) until this end is closed or its write deadline fires
	writersParked int
	failArmed    bool
	failAfter    int
	failAfterErr error
	// virtual write deadline: armed by SetDeadline / SetWriteDeadline, expires only when fired
	wDeadlineSet bool
	wFired       bool
}

// Pipe returns the client end and the server end of a fresh in-memory connection.
func Pipe(tap Tap) (client, server *Conn) {
	c2s, s2c := newHalves()
	client = &Conn{rd: s2c, wr: c2s, dir: "c2s", name: "client", tap: tap}
	server = &Conn{rd: c2s, wr: s2c, dir: "s2c", name: "server", tap: tap}
	return
}

func (c *Conn) Read(p []byte) (int, error) { return c.rd.read(p) }

// BlockWrites models a peer that has stopped reading with the send window full: from now on a
// Write on this end does not return until the end is closed (net.ErrClosed) or an armed write
// deadline is fired (timeout).
func (c *Conn) BlockWrites() {
	c.mu.Lock()
	c.blockWrites = true
	c.mu.Unlock()
}

// WritersParked reports how many Write calls are currently waiting because of BlockWrites.
func (c *Conn) WritersParked() int {
	c.mu.Lock()
	defer c.mu.Unlock()
	return c.writersParked
}

func (c *Conn) Write(p []byte) (int, error) {
	c.mu.Lock()
	if c.blockWrites && !c.closed {
		c.writersParked++
		for !c.closed && !(c.wDeadlineSet && c.wFired) {
			c.mu.Unlock()
			time.Sleep(200 * time.Microsecond)
			c.mu.Lock()
		}
		c.writersParked--
	}
	if c.failArmed && c.writeErr == nil && !c.closed {
		if c.failAfter <= 0 {
			c.writeErr = c.failAfterErr
		} else {
			c.failAfter--
		}
	}
	we := c.writeErr
	closed := c.closed
	wexp := c.wDeadlineSet && c.wFired
	c.mu.Unlock()
	if closed {
		return 0, net.ErrClosed
	}
	if we != nil {
		return 0, we
	}
	if wexp {
		return 0, ErrTimeout
	}
	n, err := c.wr.write(p)
	if n > 0 && c.tap != nil {
		c.tap.Wrote(c.dir, p[:n])
	}
	return n, err
}

// Close closes both directions of this end: the peer drains what was written and then sees
// io.EOF; the peer's writes fail; our pending Read fails with net.ErrClosed.
func (c *Conn) Close() error {
	c.mu.Lock()
	if c.closed {
		c.mu.Unlock()
		return net.ErrClosed
	}
	c.closed = true
	c.mu.Unlock()
	if c.wr.closeWrite(nil) && c.tap != nil {
		c.tap.Closed(c.dir, "close")
	}
	c.rd.closeRead()
	return nil
}

// CloseWrite half-closes: the peer sees io.EOF after draining; we can still read.
func (c *Conn) CloseWrite() error {
	if c.wr.closeWrite(nil) && c.tap != nil {
		c.tap.Closed(c.dir, "closewrite")
	}
	return nil
}

// CloseWriteWithError half-closes so that the peer's Read returns err (instead of io.EOF)
// once it has drained everything written before.
func (c *Conn) CloseWriteWithError(err error) {
	if c.wr.closeWrite(err) && c.tap != nil {
		c.tap.Closed(c.dir, "closewrite:"+err.Error())
	}
}

// FailWriteAfter lets n more Write calls on this end succeed and makes every later one fail with
// err: the peer is gone (reset) or does not take data any more (timeout), noticed on the n+1-th
// write, while what the peer had sent before can still be read.
func (c *Conn) FailWriteAfter(n int, err error) {
	c.mu.Lock()
	c.failAfter, c.failAfterErr, c.failArmed = n, err, true
	c.mu.Unlock()
}

// SetWriteErr makes every later Write on this end fail with err.
func (c *Conn) SetWriteErr(err error) {
	c.mu.Lock()
	c.writeErr = err
	c.mu.Unlock()
}

// SetStallDetect enables ErrStalled on Reads of this end.
func (c *Conn) SetStallDetect(on bool) {
	c.rd.mu.Lock()
	c.rd.stallDetect = on
	c.rd.mu.Unlock()
}

// SetWatchdog bounds (in wall-clock time) how long one Read of this end may stay blocked;
// expiry yields ErrWatchdog, which callers must treat as inconclusive.
func (c *Conn) SetWatchdog(d time.Duration) {
	c.rd.mu.Lock()
	c.rd.watchdog = d
	c.rd.mu.Unlock()
}

// SetCoalesce makes Reads on this end merge all available segments (busy-peer emulation).
func (c *Conn) SetCoalesce(on bool) {
	c.rd.mu.Lock()
	c.rd.coalesce = on
	c.rd.mu.Unlock()
}

type addr string

func (a addr) Network() string { return "mem" }
func (a addr) String() string  { return string(a) }

func (c *Conn) LocalAddr() net.Addr  { return addr("mem-" + c.name) }
func (c *Conn) RemoteAddr() net.Addr { return addr("mem-peer-of-" + c.name) }

func (c *Conn) IsClosed() bool {
	c.mu.Lock()
	defer c.mu.Unlock()
	return c.closed
}

// Deadlines are virtual: arming one only records it; it expires when FireReadDeadline is
// called on this end (never by the passage of time).
func (c *Conn) SetDeadline(t time.Time) error {
	if err := c.SetReadDeadline(t); err != nil {
		return err
	}
	return c.SetWriteDeadline(t)
}

func (c *Conn) SetReadDeadline(t time.Time) error {
	c.mu.Lock()
	closed := c.closed
	c.mu.Unlock()
	if closed {
		return net.ErrClosed
	}
	c.rd.mu.Lock()
	c.rd.deadlineSet = !t.IsZero()
	c.rd.deadlineAt = t
	c.rd.fired = false
	c.rd.gen++
	c.rd.cond.Broadcast()
	c.rd.mu.Unlock()
	return nil
}

func (c *Conn) SetWriteDeadline(t time.Time) error {
	c.mu.Lock()
	defer c.mu.Unlock()
	if c.closed {
		return net.ErrClosed
	}
	c.wDeadlineSet = !t.IsZero()
	c.wFired = false
	return nil
}

// ReadDeadlineValue returns the read deadline currently armed on this end (ok == false: none).
// Deadlines never expire by themselves here; the value lets a monitor see WHICH timeout the
// code under test has armed.
func (c *Conn) ReadDeadlineValue() (t time.Time, ok bool) {
	c.rd.mu.Lock()
	defer c.rd.mu.Unlock()
	return c.rd.deadlineAt, c.rd.deadlineSet
}

// FireWriteDeadline expires the currently armed write deadline of this end, if any: every
// Write fails with a timeout error until a new deadline is set. Reports whether one was armed.
func (c *Conn) FireWriteDeadline() bool {
	c.mu.Lock()
	defer c.mu.Unlock()
	if !c.wDeadlineSet {
		return false
	}
	c.wFired = true
	return true
}

// FireDeadlines lets "more time than any armed deadline" pass on this end: both the read and
// the write deadline expire if they are armed. Reports whether any was.
func (c *Conn) FireDeadlines() bool {
	r := c.FireReadDeadline()
	w := c.FireWriteDeadline()
	return r || w
}

// FireReadDeadline expires the currently armed read deadline of this end, if any: a pending
// or the next Read returns a timeout error until a new deadline is set. Reports whether a
// deadline was armed.
func (c *Conn) FireReadDeadline() bool {
	c.rd.mu.Lock()
	defer c.rd.mu.Unlock()
	if !c.rd.deadlineSet {
		return false
	}
	c.rd.fired = true
	c.rd.gen++
	c.rd.cond.Broadcast()
	return true
}

// Stats of the direction this end READS from.
type Stats struct {
	Consumed, Written, Reads int64
	Parked                   bool
	Pending                  int
	WriterClosed             bool
	ReaderClosed             bool
}

func (c *Conn) ReadStats() Stats { return c.rd.stats() }

// PeerReadStats describes the direction this end WRITES to (i.e. what the peer reads).
func (c *Conn) PeerReadStats() Stats { return c.wr.stats() }

func (h *half) stats() Stats {
	h.mu.Lock()
	defer h.mu.Unlock()
	p := 0
	for _, s := range h.segs {
		p += len(s)
	}
	return Stats{Consumed: h.consumed, Written: h.written, Reads: h.reads, Parked: h.parked > 0 && len(h.segs) == 0,
		Pending: p, WriterClosed: h.wclosed, ReaderClosed: h.rclosed}
}

// ErrWatchdog is returned by the Wait* functions when the (generous, wall-clock) watchdog
// expires. It always means "inconclusive", never a verdict.
var ErrWatchdog = errors.New("memconn: watchdog expired")

// WaitPeerIdle blocks until the peer has consumed everything we wrote and is parked in Read
// (returns true), or the peer closed its read side / its whole end (returns false).
func (c *Conn) WaitPeerIdle(watchdog time.Duration) (idle bool, err error) {
	h := c.wr
	stop := make(chan struct{})
	defer close(stop)
	expired := false
	if watchdog > 0 {
		t := time.AfterFunc(watchdog, func() {
			h.mu.Lock()
			expired = true
			h.cond.Broadcast()
			h.mu.Unlock()
		})
		defer t.Stop()
	}
	h.mu.Lock()
	defer h.mu.Unlock()
	for {
		if h.rclosed {
			return false, nil
		}
		if len(h.segs) == 0 && h.parked > 0 {
			return true, nil
		}
		if expired {
			return false, ErrWatchdog
		}
		h.cond.Wait()
	}
}

// Listener is a scripted net.Listener handing out server ends of pipes.
type Listener struct {
	mu      sync.Mutex
	cond    *sync.Cond
	queue   []acceptItem
	atClose []net.Conn
	closed  bool
	// CloseErr is returned by Close (first call).
	CloseErr error
	Accepts  int
	Closes   int
	// AcceptCalls counts entries into Accept (Serve registers its listener before the first one).
	AcceptCalls int
	// TempAfterClose: once closed, Accept keeps answering with temporary errors (a wrapper or a
	// platform that reports the closed descriptor as a transient condition).
	TempAfterClose bool
}

type acceptItem struct {
	conn net.Conn
	err  error
}

func NewListener() *Listener {
	l := &Listener{}
	l.cond = sync.NewCond(&l.mu)
	return l
}

// Push makes the next Accept return conn.
func (l *Listener) Push(conn net.Conn) {
	l.mu.Lock()
	l.queue = append(l.queue, acceptItem{conn: conn})
	l.cond.Broadcast()
	l.mu.Unlock()
}

// PushErr makes the next Accept return err.
func (l *Listener) PushErr(err error) {
	l.mu.Lock()
	l.queue = append(l.queue, acceptItem{err: err})
	l.cond.Broadcast()
	l.mu.Unlock()
}

func (l *Listener) Accept() (net.Conn, error) {
	l.mu.Lock()
	defer l.mu.Unlock()
	l.AcceptCalls++
	l.cond.Broadcast()
	for {
		if l.closed {
			if len(l.atClose) > 0 {
				// the connection that the pending Accept hands out at the very moment the
				// listener is closed (an Accept that won the race against Close)
				c := l.atClose[0]
				l.atClose = l.atClose[1:]
				l.Accepts++
				l.cond.Broadcast()
				return c, nil
			}
			if l.TempAfterClose {
				return nil, TempErr{N: -1}
			}
			return nil, net.ErrClosed
		}
		if len(l.queue) > 0 {
			it := l.queue[0]
			l.queue = l.queue[1:]
			l.Accepts++
			l.cond.Broadcast()
			return it.conn, it.err
		}
		l.cond.Wait()
	}
}

// WaitAccepting blocks until Accept has been entered at least once (or the listener closed).
func (l *Listener) WaitAccepting() {
	l.mu.Lock()
	defer l.mu.Unlock()
	for l.AcceptCalls == 0 && !l.closed {
		l.cond.Wait()
	}
}

// WaitDrained blocks until every queued item has been taken by Accept (or the listener closed).
func (l *Listener) WaitDrained() {
	l.mu.Lock()
	defer l.mu.Unlock()
	for len(l.queue) > 0 && !l.closed {
		l.cond.Wait()
	}
}

func (l *Listener) Close() error {
	l.mu.Lock()
	defer l.mu.Unlock()
	l.Closes++
	if l.closed {
		return net.ErrClosed
	}
	l.closed = true
	l.cond.Broadcast()
	return l.CloseErr
}

// PushAtClose queues a connection that the pending Accept returns at the moment Close is called:
// the deterministic form of "Accept returned a connection just as the server was being closed".
func (l *Listener) PushAtClose(c net.Conn) {
	l.mu.Lock()
	l.atClose = append(l.atClose, c)
	l.mu.Unlock()
}

// AtClosePending reports how many PushAtClose connections have not been handed out yet.
func (l *Listener) AtClosePending() int {
	l.mu.Lock()
	defer l.mu.Unlock()
	return len(l.atClose)
}

func (l *Listener) IsClosed() bool {
	l.mu.Lock()
	defer l.mu.Unlock()
	return l.closed
}

func (l *Listener) Addr() net.Addr { return addr("mem-listener") }

// TempErr is a temporary Accept error (net.Error with Temporary()==true).
type TempErr struct{ N int }

func (e TempErr) Error() string   { return "memconn: temporary accept error" }
func (e TempErr) Timeout() bool   { return false }
func (e TempErr) Temporary() bool { return true }

// PermErr is a permanent Accept error.
type PermErr struct{ N int }

func (e PermErr) Error() string   { return "memconn: permanent accept error" }
func (e PermErr) Timeout() bool   { return false }
func (e PermErr) Temporary() bool { return false }
