package wire

import (
	"bufio"
	"strings"
	"sync"

	"verifharness/memconn"
	"verifharness/rec"
)

// Fake is a scripted fake SMTP server speaking on the server end of an in-memory pipe. It is
// used to drive the real smtp.Client against misbehaving peers.
type Fake struct {
	Client *memconn.Conn // hand this to smtp.NewClient
	Srv    *memconn.Conn
	Log    *rec.Log
	R      *bufio.Reader

	mu    sync.Mutex
	Lines []string // every line received (without CRLF)
	done  chan struct{}
}

// NewFake starts script in its own goroutine.
func NewFake(script func(f *Fake)) *Fake {
	l := rec.NewLog()
	c, s := memconn.Pipe(l)
	c.SetWatchdog(Watchdog)
	s.SetWatchdog(Watchdog)
	f := &Fake{Client: c, Srv: s, Log: l, R: bufio.NewReader(s), done: make(chan struct{})}
	go func() {
		defer close(f.done)
		script(f)
	}()
	return f
}

// ReadLine returns the next line from the client without its line ending; ok=false at EOF/error.
func (f *Fake) ReadLine() (string, bool) {
	s, err := f.R.ReadString('\n')
	if err != nil {
		return s, false
	}
	s = strings.TrimRight(s, "\r\n")
	f.mu.Lock()
	f.Lines = append(f.Lines, s)
	f.mu.Unlock()
	return s, true
}

func (f *Fake) Write(s string) { f.Srv.Write([]byte(s)) }

// Received returns the lines seen so far.
func (f *Fake) Received() []string {
	f.mu.Lock()
	defer f.mu.Unlock()
	return append([]string{}, f.Lines...)
}

// Wait waits for the script to end.
func (f *Fake) Wait() { <-f.done }

// Close closes both ends.
func (f *Fake) Close() {
	f.Client.Close()
	f.Srv.Close()
}

// C2S returns every octet the client wrote, per Write call (segment).
func (f *Fake) C2S() []string {
	var out []string
	for _, e := range f.Log.Events() {
		if e.Kind == "c2s" {
			out = append(out, e.A)
		}
	}
	return out
}
