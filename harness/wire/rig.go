package wire

import (
	"context"
	"crypto/ecdsa"
	"crypto/elliptic"
	"crypto/rand"
	"crypto/tls"
	"crypto/x509"
	"crypto/x509/pkix"
	"errors"
	"io"
	"math/big"
	"net"
	"sync"
	"sync/atomic"
	"time"

	smtp "github.com/emersion/go-smtp"

	"verifharness/memconn"
	"verifharness/rec"
)

// Watchdog is the generous wall-clock bound on any single blocking step of a case. Its expiry
// is always reported as inconclusive, never as a verdict.
var Watchdog = 20 * time.Second

// Rig is one real smtp.Server serving harness-owned in-memory connections.
type Rig struct {
	Log *rec.Log
	BE  *rec.Backend
	Srv *smtp.Server
	L   *memconn.Listener

	serveDone chan error
	ServeErr  error
}

// NewRig builds a server with the recording backend, applies conf and starts Serve.
func NewRig(kind rec.SessKind, conf func(s *smtp.Server)) *Rig {
	l := rec.NewLog()
	be := rec.NewBackend(l, kind)
	srv := smtp.NewServer(be)
	srv.Domain = "srv.test"
	srv.ErrorLog = l
	if conf != nil {
		conf(srv)
	}
	r := &Rig{Log: l, BE: be, Srv: srv, L: memconn.NewListener(), serveDone: make(chan error, 1)}
	go func() { r.serveDone <- srv.Serve(r.L) }()
	return r
}

// Dial creates a connection and hands its server end to Serve.
func (r *Rig) Dial() *Peer {
	c, s := memconn.Pipe(r.Log)
	c.SetStallDetect(true)
	c.SetWatchdog(Watchdog)
	r.L.Push(s)
	return &Peer{Raw: c, SrvEnd: s, rw: c, Log: r.Log}
}

// DialWith is Dial with the server end prepared (fault injection) before the server gets it.
func (r *Rig) DialWith(prep func(srv *memconn.Conn)) *Peer {
	c, s := memconn.Pipe(r.Log)
	c.SetStallDetect(true)
	c.SetWatchdog(Watchdog)
	prep(s)
	r.L.Push(s)
	return &Peer{Raw: c, SrvEnd: s, rw: c, Log: r.Log}
}

// DialTLS creates a connection whose server end is wrapped in tls.Server (implicit TLS).
func (r *Rig) DialTLS() (*Peer, error) {
	c, s := memconn.Pipe(r.Log)
	c.SetStallDetect(true)
	c.SetWatchdog(Watchdog)
	r.L.Push(tls.Server(s, ServerTLS()))
	p := &Peer{Raw: c, SrvEnd: s, rw: c, Log: r.Log}
	tc := tls.Client(c, ClientTLS())
	if err := tc.Handshake(); err != nil {
		return p, err
	}
	p.rw = tc
	p.TLS = tc
	return p, nil
}

// Finish ends the case: Shutdown (joins connection handlers), bounded by the watchdog.
// It returns false when the watchdog expired (inconclusive).
// finishTimeouts counts Finish calls that ran into the watchdog in this process. A tree on which
// handlers hang would otherwise cost two full watchdog periods per case; after a few such
// expiries the remaining cases wait only briefly (their verdicts come from the monitors, the
// wait itself never decides anything).
var finishTimeouts atomic.Int32

func finishWait() time.Duration {
	if finishTimeouts.Load() > 6 {
		return Watchdog / 40
	}
	return Watchdog
}

// Abort ends the case without waiting for handlers (used after a deadlock has been established).
func (r *Rig) Abort() {
	r.L.WaitAccepting()
	r.CloseBounded()
}

// CloseBounded calls Server.Close on a goroutine of its own and waits for it for at most one
// watchdog period: on a tree where Close blocks for good (a lock held across a callback that
// itself closes) the harness must not block with it. returned == false means Close is stuck.
func (r *Rig) CloseBounded() (err error, returned bool) {
	done := make(chan error, 1)
	go func() { done <- r.Srv.Close() }()
	select {
	case err = <-done:
		return err, true
	case <-time.After(Watchdog):
		return nil, false
	}
}

func (r *Rig) Finish() bool {
	// Serve must have registered its listener (it does so before its first Accept), otherwise
	// Shutdown would not close it and Serve would never return.
	r.L.WaitAccepting()
	r.L.WaitDrained()
	ctx, cancel := context.WithTimeout(context.Background(), finishWait())
	defer cancel()
	errc := make(chan error, 1)
	go func() { errc <- r.Srv.Shutdown(ctx) }()
	ok := true
	select {
	case err := <-errc:
		if errors.Is(err, context.DeadlineExceeded) {
			ok = false
			finishTimeouts.Add(1)
			r.CloseBounded()
		}
	case <-time.After(finishWait() + 2*time.Second):
		// Shutdown is stuck somewhere its context cannot reach (a server lock held for good)
		ok = false
		finishTimeouts.Add(1)
	}
	select {
	case r.ServeErr = <-r.serveDone:
	case <-time.After(finishWait()):
		ok = false
		finishTimeouts.Add(1)
	}
	return ok
}

// WaitServe waits for Serve to return.
func (r *Rig) WaitServe() (error, bool) {
	select {
	case err := <-r.serveDone:
		r.ServeErr = err
		r.serveDone <- err
		return err, true
	case <-time.After(Watchdog):
		return nil, false
	}
}

// Peer is the raw client side of one connection.
type Peer struct {
	Raw     *memconn.Conn
	SrvEnd  *memconn.Conn
	TLS     *tls.Conn
	rw      io.ReadWriter
	Log     *rec.Log
	P       Parser
	taken   int // replies already handed out
	SendErr error
	ReadErr error
	rdbuf   [8192]byte
}

// Send writes b as exactly one segment (one TLS record when inside TLS).
func (p *Peer) Send(b []byte) {
	if len(b) == 0 {
		return
	}
	if _, err := p.rw.Write(b); err != nil && p.SendErr == nil {
		p.SendErr = err
	}
}

func (p *Peer) SendStr(s string) { p.Send([]byte(s)) }

// SendSegs writes data cut into the given segments.
func (p *Peer) SendSegs(segs [][]byte) {
	for _, s := range segs {
		p.Send(s)
	}
}

// ErrEOF is returned when the server closed the connection.
var ErrEOF = io.EOF

// ReadReply returns the next complete reply. Errors: io.EOF (server closed),
// memconn.ErrStalled (server waits for a command: the reply will never come),
// memconn.ErrWatchdog (inconclusive).
func (p *Peer) ReadReply() (Reply, error) {
	for {
		if p.taken < len(p.P.Done) {
			r := p.P.Done[p.taken]
			p.taken++
			return r, nil
		}
		if p.ReadErr != nil {
			return Reply{}, p.ReadErr
		}
		n, err := p.rw.Read(p.rdbuf[:])
		if n > 0 {
			p.P.Feed(p.rdbuf[:n])
		}
		if err != nil {
			if errors.Is(err, memconn.ErrStalled) {
				// not sticky: the caller may send more and try again
				if p.taken < len(p.P.Done) {
					continue
				}
				return Reply{}, memconn.ErrStalled
			}
			p.ReadErr = normErr(err)
		}
	}
}

func normErr(err error) error {
	if errors.Is(err, io.EOF) || errors.Is(err, io.ErrUnexpectedEOF) || errors.Is(err, net.ErrClosed) {
		return io.EOF
	}
	return err
}

// Cmd sends one command line (CRLF appended) as one segment and reads one reply.
func (p *Peer) Cmd(line string) (Reply, error) {
	p.SendStr(line + "\r\n")
	return p.ReadReply()
}

// ReadAll reads replies until the server closes, stalls or the watchdog expires.
func (p *Peer) ReadAll() ([]Reply, error) {
	var out []Reply
	for {
		r, err := p.ReadReply()
		if err != nil {
			return out, err
		}
		out = append(out, r)
	}
}

// ReadUntilStall reads replies until the server is idle waiting for the next command (nil
// error), closes (io.EOF) or the watchdog expires.
func (p *Peer) ReadUntilStall() ([]Reply, error) {
	out, err := p.ReadAll()
	if errors.Is(err, memconn.ErrStalled) {
		return out, nil
	}
	return out, err
}

// CloseWrite half-closes towards the server (the server sees EOF after draining).
func (p *Peer) CloseWrite() {
	if p.TLS != nil {
		p.TLS.CloseWrite()
	}
	p.Raw.CloseWrite()
}

func (p *Peer) Close() { p.Raw.Close() }

// StartTLSClient upgrades the client side (after a 220 to STARTTLS).
func (p *Peer) StartTLSClient() error {
	tc := tls.Client(p.Raw, ClientTLS())
	if err := tc.Handshake(); err != nil {
		return err
	}
	p.TLS = tc
	p.rw = tc
	p.P = Parser{}
	p.taken = 0
	return nil
}

// ---------------------------------------------------------------------------------------------
// TLS material, generated once per process.

var (
	tlsOnce   sync.Once
	srvTLS    *tls.Config
	cliTLS    *tls.Config
	caPEMData []byte
)

func genTLS() {
	caKey, _ := ecdsa.GenerateKey(elliptic.P256(), rand.Reader)
	caT := &x509.Certificate{
		SerialNumber: big.NewInt(1), Subject: pkix.Name{CommonName: "verif CA"},
		NotBefore: time.Now().Add(-time.Hour), NotAfter: time.Now().Add(240 * time.Hour),
		IsCA: true, KeyUsage: x509.KeyUsageCertSign | x509.KeyUsageDigitalSignature, BasicConstraintsValid: true,
	}
	caDER, err := x509.CreateCertificate(rand.Reader, caT, caT, &caKey.PublicKey, caKey)
	if err != nil {
		panic(err)
	}
	caCert, _ := x509.ParseCertificate(caDER)
	key, _ := ecdsa.GenerateKey(elliptic.P256(), rand.Reader)
	t := &x509.Certificate{
		SerialNumber: big.NewInt(2), Subject: pkix.Name{CommonName: "srv.test"},
		NotBefore: time.Now().Add(-time.Hour), NotAfter: time.Now().Add(240 * time.Hour),
		KeyUsage: x509.KeyUsageDigitalSignature, ExtKeyUsage: []x509.ExtKeyUsage{x509.ExtKeyUsageServerAuth},
		DNSNames: []string{"srv.test", "localhost"}, IPAddresses: []net.IP{net.ParseIP("127.0.0.1")},
	}
	der, err := x509.CreateCertificate(rand.Reader, t, caCert, &key.PublicKey, caKey)
	if err != nil {
		panic(err)
	}
	srvTLS = &tls.Config{Certificates: []tls.Certificate{{Certificate: [][]byte{der}, PrivateKey: key}}}
	pool := x509.NewCertPool()
	pool.AddCert(caCert)
	cliTLS = &tls.Config{RootCAs: pool, ServerName: "srv.test"}
	caPEMData = append([]byte("-----BEGIN CERTIFICATE-----\n"), append(b64wrap(caDER), []byte("-----END CERTIFICATE-----\n")...)...)
}

func b64wrap(der []byte) []byte {
	const tbl = "ABCDEFGHIJKLMNOPQRSTUVWXYZabcdefghijklmnopqrstuvwxyz0123456789+/"
	var out []byte
	col := 0
	emit := func(b byte) {
		out = append(out, b)
		col++
		if col == 64 {
			out = append(out, '\n')
			col = 0
		}
	}
	for i := 0; i < len(der); i += 3 {
		var v uint32
		n := 0
		for j := 0; j < 3; j++ {
			v <<= 8
			if i+j < len(der) {
				v |= uint32(der[i+j])
				n++
			}
		}
		emit(tbl[(v>>18)&63])
		emit(tbl[(v>>12)&63])
		if n > 1 {
			emit(tbl[(v>>6)&63])
		} else {
			emit('=')
		}
		if n > 2 {
			emit(tbl[v&63])
		} else {
			emit('=')
		}
	}
	if col != 0 {
		out = append(out, '\n')
	}
	return out
}

// ServerTLS returns the shared server-side TLS configuration.
func ServerTLS() *tls.Config { tlsOnce.Do(genTLS); return srvTLS }

// ServerTLSDynamic returns a server configuration that presents the same certificate as
// ServerTLS but supplies it only through the GetCertificate callback (Certificates is empty),
// the way servers with SNI or certificate reloading are configured.
func ServerTLSDynamic() *tls.Config {
	tlsOnce.Do(genTLS)
	cert := srvTLS.Certificates[0]
	return &tls.Config{GetCertificate: func(*tls.ClientHelloInfo) (*tls.Certificate, error) { return &cert, nil }}
}

// ClientTLS returns a client configuration trusting the harness CA.
func ClientTLS() *tls.Config { tlsOnce.Do(genTLS); return cliTLS.Clone() }

// CAPEM returns the harness CA certificate in PEM form.
func CAPEM() []byte { tlsOnce.Do(genTLS); return caPEMData }

// SelfSignedTLS returns a server configuration with a fresh self-signed certificate for name
// that chains to nothing the harness CA (or anybody) trusts.
func SelfSignedTLS(name string) *tls.Config {
	key, _ := ecdsa.GenerateKey(elliptic.P256(), rand.Reader)
	t := &x509.Certificate{
		SerialNumber: big.NewInt(99), Subject: pkix.Name{CommonName: name},
		NotBefore: time.Now().Add(-time.Hour), NotAfter: time.Now().Add(240 * time.Hour),
		KeyUsage: x509.KeyUsageDigitalSignature, ExtKeyUsage: []x509.ExtKeyUsage{x509.ExtKeyUsageServerAuth},
		DNSNames: []string{name, "localhost"}, IPAddresses: []net.IP{net.ParseIP("127.0.0.1")},
	}
	der, err := x509.CreateCertificate(rand.Reader, t, t, &key.PublicKey, key)
	if err != nil {
		panic(err)
	}
	return &tls.Config{Certificates: []tls.Certificate{{Certificate: [][]byte{der}, PrivateKey: key}}}
}
