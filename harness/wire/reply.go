// Package wire holds the strict SMTP reply parser and the raw command driver.
package wire

import (
	"bytes"
	"fmt"
	"strings"
)

// Reply is one (possibly multi-line) SMTP reply as found on the wire.
type Reply struct {
	Code   int      `json:"code"`
	Lines  []string `json:"lines"` // text of each line, without code, separator and CRLF
	Raw    string   `json:"-"`
	Faults []string `json:"faults,omitempty"` // framing faults and text-content faults (prefixed "text:")
}

func (r Reply) String() string {
	return fmt.Sprintf("%d %q", r.Code, strings.Join(r.Lines, "\\n"))
}

// Text joins the lines with LF.
func (r Reply) Text() string { return strings.Join(r.Lines, "\n") }

func (r Reply) Class() int { return r.Code / 100 }

// Enhanced parses the enhanced status code at the start of line i.
func (r Reply) Enhanced(i int) (c, s, d int, rest string, ok bool) {
	if i < 0 || i >= len(r.Lines) {
		return
	}
	return ParseEnhanced(r.Lines[i])
}

// ParseEnhanced recognises "c.s.d" followed by SP or end of line (RFC 2034 / RFC 3463).
func ParseEnhanced(line string) (c, s, d int, rest string, ok bool) {
	tok := line
	rest = ""
	if i := strings.IndexByte(line, ' '); i >= 0 {
		tok, rest = line[:i], line[i+1:]
	}
	parts := strings.Split(tok, ".")
	if len(parts) != 3 {
		return 0, 0, 0, "", false
	}
	var v [3]int
	for i, p := range parts {
		if len(p) == 0 || len(p) > 3 {
			return 0, 0, 0, "", false
		}
		n := 0
		for _, ch := range []byte(p) {
			if ch < '0' || ch > '9' {
				return 0, 0, 0, "", false
			}
			n = n*10 + int(ch-'0')
		}
		v[i] = n
	}
	if len(parts[0]) != 1 {
		return 0, 0, 0, "", false
	}
	return v[0], v[1], v[2], rest, true
}

// Parser consumes the server→client octet stream incrementally.
type Parser struct {
	buf  []byte
	cur  *Reply
	Done []Reply
}

func (p *Parser) Feed(b []byte) {
	p.buf = append(p.buf, b...)
	for {
		i := bytes.IndexByte(p.buf, '\n')
		if i < 0 {
			return
		}
		line := p.buf[:i+1]
		p.buf = p.buf[i+1:]
		p.line(line)
	}
}

// Rest returns octets not yet forming a complete line.
func (p *Parser) Rest() []byte { return p.buf }

// Pending reports whether a multi-line reply is open or a partial line is buffered.
func (p *Parser) Pending() bool { return p.cur != nil || len(p.buf) > 0 }

func (p *Parser) line(raw []byte) {
	if p.cur == nil {
		p.cur = &Reply{}
	}
	r := p.cur
	r.Raw += string(raw)
	body := raw[:len(raw)-1]
	if len(body) > 0 && body[len(body)-1] == '\r' {
		body = body[:len(body)-1]
	} else {
		r.Faults = append(r.Faults, "line ends in bare LF")
	}
	final := true
	text := ""
	code := 0
	if len(body) < 3 || !isDigit(body[0]) || !isDigit(body[1]) || !isDigit(body[2]) {
		r.Faults = append(r.Faults, fmt.Sprintf("line does not start with a three-digit code: %q", clipb(body)))
		text = string(body)
	} else {
		code = int(body[0]-'0')*100 + int(body[1]-'0')*10 + int(body[2]-'0')
		if body[0] < '2' || body[0] > '5' {
			r.Faults = append(r.Faults, fmt.Sprintf("reply code %d outside 2xx-5xx", code))
		}
		switch {
		case len(body) == 3:
			// bare code on a final line is tolerated
		case body[3] == '-':
			final = false
			text = string(body[4:])
		case body[3] == ' ':
			text = string(body[4:])
		default:
			r.Faults = append(r.Faults, fmt.Sprintf("fourth octet %q is neither '-' nor SP", body[3]))
			text = string(body[3:])
		}
	}
	if len(r.Lines) == 0 {
		r.Code = code
	} else if code != r.Code {
		r.Faults = append(r.Faults, fmt.Sprintf("code changes inside a multi-line reply: %d then %d", r.Code, code))
	}
	for _, ch := range []byte(text) {
		if (ch < 0x20 && ch != '\t') || ch == 0x7f {
			r.Faults = append(r.Faults, fmt.Sprintf("text: control octet 0x%02X in reply text", ch))
			break
		}
	}
	r.Lines = append(r.Lines, text)
	if final {
		p.Done = append(p.Done, *r)
		p.cur = nil
	}
}

func isDigit(b byte) bool { return b >= '0' && b <= '9' }

func clipb(b []byte) string {
	if len(b) > 60 {
		return string(b[:60]) + "..."
	}
	return string(b)
}

// CheckEnhanced applies the RFC 2034 rule used by C04: outside greeting, EHLO success and
// 3xx, the reply's final line starts with an enhanced code whose class equals the reply-code
// class; earlier lines that carry one must carry the same one. exempt marks greeting/EHLO.
func CheckEnhanced(r Reply, exempt bool) string {
	if exempt || r.Class() == 3 || r.Code == 0 {
		return ""
	}
	c, s, d, _, ok := r.Enhanced(len(r.Lines) - 1)
	if !ok {
		return fmt.Sprintf("final line of %d reply has no enhanced status code: %q", r.Code, r.Lines[len(r.Lines)-1])
	}
	if c != r.Class() {
		return fmt.Sprintf("enhanced code %d.%d.%d does not match class of reply code %d", c, s, d, r.Code)
	}
	if c != 2 && c != 4 && c != 5 {
		return fmt.Sprintf("enhanced class %d invalid", c)
	}
	return ""
}
