// Package rec provides the unified event log and the recording, scriptable backend that the
// monitors use to observe the real go-smtp server from the Backend/Session boundary.
package rec

import (
	"fmt"
	"io"
	"strings"
	"sync"
	"time"

	"github.com/emersion/go-sasl"
	smtp "github.com/emersion/go-smtp"
)

// Event is one observation. Seq is a single logical clock shared by all observers of a case.
type Event struct {
	Seq  int    `json:"seq"`
	Kind string `json:"kind"`         // c2s s2c close NewSession Mail Rcpt Data LMTPData Reset Logout AuthMechs Auth SaslNext SetStatus log act gate
	Ph   string `json:"ph,omitempty"` // "b" begin / "e" end / "" instantaneous
	Sess int    `json:"sess,omitempty"`
	A    string `json:"a,omitempty"`
	B    string `json:"b,omitempty"`
	N    int    `json:"n,omitempty"`
	Err  string `json:"err,omitempty"`

	MailOpts *smtp.MailOptions `json:"-"`
	RcptOpts *smtp.RcptOptions `json:"-"`
	ErrVal   error             `json:"-"`
}

func (e Event) String() string {
	s := fmt.Sprintf("#%d %s", e.Seq, e.Kind)
	if e.Ph != "" {
		s += "/" + e.Ph
	}
	if e.Sess != 0 {
		s += fmt.Sprintf(" s%d", e.Sess)
	}
	if e.A != "" {
		s += fmt.Sprintf(" a=%q", clip(e.A, 200))
	}
	if e.B != "" {
		s += fmt.Sprintf(" b=%q", clip(e.B, 200))
	}
	if e.N != 0 {
		s += fmt.Sprintf(" n=%d", e.N)
	}
	if e.Err != "" {
		s += fmt.Sprintf(" err=%q", clip(e.Err, 200))
	}
	return s
}

func clip(s string, n int) string {
	if len(s) <= n {
		return s
	}
	return s[:n] + fmt.Sprintf("...(+%d)", len(s)-n)
}

// Log is the unified, totally ordered event log of one case.
type Log struct {
	mu     sync.Mutex
	cond   *sync.Cond
	ev     []Event
	MaxSeg int // cap on stored segment content (0 = 64 KiB)
}

func NewLog() *Log {
	l := &Log{}
	l.cond = sync.NewCond(&l.mu)
	return l
}

func (l *Log) Add(e Event) int {
	l.mu.Lock()
	e.Seq = len(l.ev) + 1
	l.ev = append(l.ev, e)
	l.cond.Broadcast()
	l.mu.Unlock()
	return e.Seq
}

// Events returns a snapshot.
func (l *Log) Events() []Event {
	l.mu.Lock()
	defer l.mu.Unlock()
	out := make([]Event, len(l.ev))
	copy(out, l.ev)
	return out
}

func (l *Log) Len() int {
	l.mu.Lock()
	defer l.mu.Unlock()
	return len(l.ev)
}

// Strings renders the log (abridged to max lines; 0 = all).
func (l *Log) Strings(max int) []string {
	ev := l.Events()
	var out []string
	for i, e := range ev {
		if max > 0 && i >= max {
			out = append(out, fmt.Sprintf("... %d more events", len(ev)-i))
			break
		}
		out = append(out, e.String())
	}
	return out
}

// WaitFor blocks until an event satisfying pred exists and returns it. It is woken by new
// events only; stop (when closed) aborts the wait.
func (l *Log) WaitFor(pred func(Event) bool, stop <-chan struct{}) (Event, bool) {
	done := make(chan struct{})
	defer close(done)
	if stop != nil {
		go func() {
			select {
			case <-stop:
				l.mu.Lock()
				l.cond.Broadcast()
				l.mu.Unlock()
			case <-done:
			}
		}()
	}
	l.mu.Lock()
	defer l.mu.Unlock()
	i := 0
	for {
		for ; i < len(l.ev); i++ {
			if pred(l.ev[i]) {
				return l.ev[i], true
			}
		}
		if stop != nil {
			select {
			case <-stop:
				return Event{}, false
			default:
			}
		}
		l.cond.Wait()
	}
}

// memconn.Tap implementation.
func (l *Log) Wrote(dir string, p []byte) {
	max := l.MaxSeg
	if max == 0 {
		max = 1 << 16
	}
	s := p
	if len(s) > max {
		s = s[:max]
	}
	l.Add(Event{Kind: dir, A: string(s), N: len(p)})
}

func (l *Log) Closed(dir string, why string) {
	l.Add(Event{Kind: "close", A: dir, B: why})
}

// Printf/Println make *Log usable as smtp.Logger (Server.ErrorLog).
func (l *Log) Printf(format string, v ...interface{}) {
	l.Add(Event{Kind: "log", A: fmt.Sprintf(format, v...)})
}
func (l *Log) Println(v ...interface{}) {
	l.Add(Event{Kind: "log", A: fmt.Sprintln(v...)})
}

// Act records a harness action.
func (l *Log) Act(what string) int { return l.Add(Event{Kind: "act", A: what}) }

// ---------------------------------------------------------------------------------------------

// Gate is a named barrier a callback can park on until the driver opens it.
type Gate struct {
	mu   sync.Mutex
	cond *sync.Cond
	open map[string]bool
	wait map[string]int
	all  bool
}

func NewGate() *Gate {
	g := &Gate{open: map[string]bool{}, wait: map[string]int{}}
	g.cond = sync.NewCond(&g.mu)
	return g
}

// Wait parks until name (or everything) has been opened.
func (g *Gate) Wait(name string) {
	g.mu.Lock()
	g.wait[name]++
	g.cond.Broadcast()
	for !g.open[name] && !g.all {
		g.cond.Wait()
	}
	g.wait[name]--
	g.mu.Unlock()
}

func (g *Gate) Open(name string) {
	g.mu.Lock()
	g.open[name] = true
	g.cond.Broadcast()
	g.mu.Unlock()
}

// OpenAll releases every present and future waiter.
func (g *Gate) OpenAll() {
	g.mu.Lock()
	g.all = true
	g.cond.Broadcast()
	g.mu.Unlock()
}

// WaitParked blocks until some callback is parked on name (or the gate was already opened).
// It gives up (returns false) after ParkWatchdog of wall-clock time, so that a tree on which the
// gate is never reached cannot hang the harness; callers then carry on and report what they see.
func (g *Gate) WaitParked(name string) bool {
	expired := false
	t := time.AfterFunc(ParkWatchdog, func() {
		g.mu.Lock()
		expired = true
		g.cond.Broadcast()
		g.mu.Unlock()
	})
	defer t.Stop()
	g.mu.Lock()
	defer g.mu.Unlock()
	for g.wait[name] == 0 && !g.open[name] && !g.all {
		if expired {
			return false
		}
		g.cond.Wait()
	}
	return true
}

// ParkWatchdog bounds WaitParked (generous: it only ever expires on a tree that breaks the
// property under test).
var ParkWatchdog = 60 * time.Second

// ---------------------------------------------------------------------------------------------

// SessKind selects which optional interfaces the sessions implement.
type SessKind int

const (
	Plain SessKind = iota
	LMTP
	Auth
	AuthLMTP
)

// Hooks script the backend. A nil hook accepts (and, for Data, reads everything with a
// 4096-octet buffer and returns nil).
type Hooks struct {
	NewSession func(c *smtp.Conn, sess int) error
	Mail       func(sess int, from string, o *smtp.MailOptions) error
	Rcpt       func(sess int, to string, o *smtp.RcptOptions) error
	// Data serves both Session.Data (st == nil) and LMTPSession.LMTPData.
	Data      func(sess int, r *Reader, st smtp.StatusCollector) error
	Reset     func(sess int)
	Logout    func(sess int) error
	AuthMechs func(sess int) []string
	Auth      func(sess int, mech string) (sasl.Server, error)
}

// Backend is a recording smtp.Backend.
type Backend struct {
	Log  *Log
	Kind SessKind
	H    Hooks

	mu    sync.Mutex
	nsess int
	// Conns remembers the *smtp.Conn of each session id.
	Conns map[int]*smtp.Conn
}

// Lock/Unlock guard Conns for readers outside the backend.
func (b *Backend) Lock()   { b.mu.Lock() }
func (b *Backend) Unlock() { b.mu.Unlock() }

func NewBackend(l *Log, kind SessKind) *Backend {
	return &Backend{Log: l, Kind: kind, Conns: map[int]*smtp.Conn{}}
}

func (b *Backend) NewSession(c *smtp.Conn) (smtp.Session, error) {
	b.mu.Lock()
	b.nsess++
	id := b.nsess
	b.Conns[id] = c
	b.mu.Unlock()
	_, isTLS := c.TLSConnectionState()
	n := 0
	if isTLS {
		n = 1
	}
	b.Log.Add(Event{Kind: "NewSession", Ph: "b", Sess: id, A: c.Hostname(), N: n})
	var err error
	defer func() {
		if p := recover(); p != nil {
			b.Log.Add(Event{Kind: "NewSession", Ph: "e", Sess: id, Err: fmt.Sprint("panic: ", p)})
			panic(p)
		}
	}()
	if b.H.NewSession != nil {
		err = b.H.NewSession(c, id)
	}
	b.Log.Add(Event{Kind: "NewSession", Ph: "e", Sess: id, Err: errStr(err), ErrVal: err})
	if err != nil {
		return nil, err
	}
	base := &session{b: b, id: id}
	switch b.Kind {
	case LMTP:
		return &lmtpSession{base}, nil
	case Auth:
		return &authSession{base}, nil
	case AuthLMTP:
		return &authLMTPSession{base}, nil
	}
	return base, nil
}

func errStr(err error) string {
	if err == nil {
		return ""
	}
	return err.Error()
}

type session struct {
	b  *Backend
	id int
}

func (s *session) end(kind string, a string, errp *error) {
	if p := recover(); p != nil {
		s.b.Log.Add(Event{Kind: kind, Ph: "e", Sess: s.id, A: a, Err: fmt.Sprint("panic: ", p)})
		panic(p)
	}
	var err error
	if errp != nil {
		err = *errp
	}
	s.b.Log.Add(Event{Kind: kind, Ph: "e", Sess: s.id, A: a, Err: errStr(err), ErrVal: err})
}

func (s *session) Reset() {
	s.b.Log.Add(Event{Kind: "Reset", Ph: "b", Sess: s.id})
	defer s.end("Reset", "", nil)
	if s.b.H.Reset != nil {
		s.b.H.Reset(s.id)
	}
}

func (s *session) Logout() (err error) {
	s.b.Log.Add(Event{Kind: "Logout", Ph: "b", Sess: s.id})
	defer s.end("Logout", "", &err)
	if s.b.H.Logout != nil {
		err = s.b.H.Logout(s.id)
	}
	return
}

func copyMailOpts(o *smtp.MailOptions) *smtp.MailOptions {
	if o == nil {
		return nil
	}
	c := *o
	if o.Auth != nil {
		a := *o.Auth
		c.Auth = &a
	}
	return &c
}

func copyRcptOpts(o *smtp.RcptOptions) *smtp.RcptOptions {
	if o == nil {
		return nil
	}
	c := *o
	if o.Notify != nil {
		c.Notify = append([]smtp.DSNNotify{}, o.Notify...)
	}
	return &c
}

func (s *session) Mail(from string, o *smtp.MailOptions) (err error) {
	s.b.Log.Add(Event{Kind: "Mail", Ph: "b", Sess: s.id, A: from, MailOpts: copyMailOpts(o)})
	defer s.end("Mail", from, &err)
	if s.b.H.Mail != nil {
		err = s.b.H.Mail(s.id, from, o)
	}
	return
}

func (s *session) Rcpt(to string, o *smtp.RcptOptions) (err error) {
	s.b.Log.Add(Event{Kind: "Rcpt", Ph: "b", Sess: s.id, A: to, RcptOpts: copyRcptOpts(o)})
	defer s.end("Rcpt", to, &err)
	if s.b.H.Rcpt != nil {
		err = s.b.H.Rcpt(s.id, to, o)
	}
	return
}

func (s *session) data(kind string, r io.Reader, st smtp.StatusCollector) (err error) {
	rr := &Reader{R: r}
	s.b.Log.Add(Event{Kind: kind, Ph: "b", Sess: s.id})
	defer func() {
		p := recover()
		e := Event{Kind: kind, Ph: "e", Sess: s.id, A: string(rr.Got), B: errStr(rr.Term), N: rr.Reads, Err: errStr(err), ErrVal: err}
		if p != nil {
			e.Err = fmt.Sprint("panic: ", p)
		}
		s.b.Log.Add(e)
		if p != nil {
			panic(p)
		}
	}()
	var sc smtp.StatusCollector
	if st != nil {
		sc = &recStatus{s: s, st: st}
	}
	if s.b.H.Data != nil {
		err = s.b.H.Data(s.id, rr, sc)
	} else {
		rr.ReadAll(4096)
	}
	return
}

func (s *session) Data(r io.Reader) error { return s.data("Data", r, nil) }

type recStatus struct {
	s  *session
	st smtp.StatusCollector
}

func (r *recStatus) SetStatus(rcpt string, err error) {
	r.s.b.Log.Add(Event{Kind: "SetStatus", Ph: "b", Sess: r.s.id, A: rcpt, Err: errStr(err), ErrVal: err})
	defer func() {
		if p := recover(); p != nil {
			r.s.b.Log.Add(Event{Kind: "SetStatus", Ph: "e", Sess: r.s.id, A: rcpt, Err: fmt.Sprint("panic: ", p)})
			panic(p)
		}
		r.s.b.Log.Add(Event{Kind: "SetStatus", Ph: "e", Sess: r.s.id, A: rcpt})
	}()
	r.st.SetStatus(rcpt, err)
}

type lmtpSession struct{ *session }

func (s *lmtpSession) LMTPData(r io.Reader, st smtp.StatusCollector) error {
	return s.data("LMTPData", r, st)
}

type authSession struct{ *session }

func (s *session) authMechs() []string {
	var m []string
	if s.b.H.AuthMechs != nil {
		m = s.b.H.AuthMechs(s.id)
	} else {
		m = []string{"PLAIN"}
	}
	s.b.Log.Add(Event{Kind: "AuthMechs", Sess: s.id, A: strings.Join(m, " ")})
	return m
}

func (s *session) auth(mech string) (srv sasl.Server, err error) {
	s.b.Log.Add(Event{Kind: "Auth", Ph: "b", Sess: s.id, A: mech})
	defer s.end("Auth", mech, &err)
	if s.b.H.Auth != nil {
		srv, err = s.b.H.Auth(s.id, mech)
		if srv != nil {
			srv = &recSasl{s: s, srv: srv}
		}
		return
	}
	return nil, smtp.ErrAuthUnknownMechanism
}

type recSasl struct {
	s   *session
	srv sasl.Server
}

func (r *recSasl) Next(resp []byte) (ch []byte, done bool, err error) {
	n := 0
	if resp == nil {
		n = -1 // distinguishes "no response" from "empty response"
	}
	r.s.b.Log.Add(Event{Kind: "SaslNext", Ph: "b", Sess: r.s.id, A: string(resp), N: n})
	ch, done, err = r.srv.Next(resp)
	d := 0
	if done {
		d = 1
	}
	r.s.b.Log.Add(Event{Kind: "SaslNext", Ph: "e", Sess: r.s.id, A: string(ch), N: d, Err: errStr(err), ErrVal: err})
	return
}

func (s *authSession) AuthMechanisms() []string              { return s.authMechs() }
func (s *authSession) Auth(mech string) (sasl.Server, error) { return s.auth(mech) }

type authLMTPSession struct{ *session }

func (s *authLMTPSession) AuthMechanisms() []string              { return s.authMechs() }
func (s *authLMTPSession) Auth(mech string) (sasl.Server, error) { return s.auth(mech) }
func (s *authLMTPSession) LMTPData(r io.Reader, st smtp.StatusCollector) error {
	return s.data("LMTPData", r, st)
}

// ---------------------------------------------------------------------------------------------

// Reader records what the backend read from the message reader.
type Reader struct {
	R     io.Reader
	Got   []byte
	Reads int
	Term  error // first non-nil error returned by R
	// AfterTerm counts Read calls made after the terminal error and records whether they
	// all returned (0, same error).
	AfterTermOK bool
}

func (r *Reader) Read(p []byte) (int, error) {
	n, err := r.R.Read(p)
	r.Reads++
	r.Got = append(r.Got, p[:n]...)
	if err != nil && r.Term == nil {
		r.Term = err
	}
	return n, err
}

// ReadAll reads with a fixed buffer size until an error occurs.
func (r *Reader) ReadAll(bufSize int) error {
	buf := make([]byte, bufSize)
	for {
		_, err := r.Read(buf)
		if err != nil {
			return err
		}
	}
}

// ReadPlan reads with the given cyclic sequence of buffer sizes until an error occurs.
func (r *Reader) ReadPlan(sizes []int) error {
	max := 1
	for _, s := range sizes {
		if s > max {
			max = s
		}
	}
	buf := make([]byte, max)
	for i := 0; ; i++ {
		s := sizes[i%len(sizes)]
		if s < 1 {
			s = 1
		}
		_, err := r.Read(buf[:s])
		if err != nil {
			return err
		}
	}
}

// ReadN reads up to n octets (buffer size bs) and stops; returns the error met, if any.
func (r *Reader) ReadN(n, bs int) error {
	if bs < 1 {
		bs = 1
	}
	buf := make([]byte, bs)
	for len(r.Got) < n {
		want := n - len(r.Got)
		if want > bs {
			want = bs
		}
		_, err := r.Read(buf[:want])
		if err != nil {
			return err
		}
	}
	return nil
}

// ProbeAfterTerm performs one more Read after the terminal error and reports what it returned.
func (r *Reader) ProbeAfterTerm() (int, error) {
	var b [8]byte
	n, err := r.R.Read(b[:])
	r.Got = append(r.Got, b[:n]...)
	return n, err
}
