// Package detect parses race-detector logs and goroutine dumps.
package detect

import (
	"bufio"
	"fmt"
	"os"
	"path/filepath"
	"regexp"
	"runtime"
	"sort"
	"strings"
)

const libPrefix = "github.com/emersion/go-smtp."
const harnessPrefix = "verifharness/"

// Race is one deduplicated data-race report.
type Race struct {
	Sig         string
	HarnessOnly bool
	Lines       []string
}

type frame struct {
	fn   string
	file string
	line int
}

var frameLoc = regexp.MustCompile(`^\s+(\S+\.go):(\d+)`)

// ParseRaceLogs reads every file whose name starts with prefix ("log_path.pid"), splits the
// WARNING: DATA RACE blocks and returns one Race per distinct signature plus the total number
// of report blocks. repo is the source root used to quote the racing statements.
func ParseRaceLogs(prefix, repo string) ([]Race, int) {
	files, _ := filepath.Glob(prefix + "*")
	total := 0
	seen := map[string]bool{}
	var out []Race
	src := map[string][]string{}
	for _, f := range files {
		fh, err := os.Open(f)
		if err != nil {
			continue
		}
		sc := bufio.NewScanner(fh)
		sc.Buffer(make([]byte, 1<<20), 1<<20)
		var block []string
		in := false
		flush := func() {
			if len(block) == 0 {
				return
			}
			total++
			r := analyse(block, repo, src)
			if !seen[r.Sig] {
				seen[r.Sig] = true
				out = append(out, r)
			}
			block = nil
		}
		for sc.Scan() {
			l := sc.Text()
			if strings.HasPrefix(l, "WARNING: DATA RACE") {
				flush()
				in = true
				block = append(block, l)
				continue
			}
			if strings.HasPrefix(l, "==================") {
				flush()
				in = false
				continue
			}
			if in {
				block = append(block, l)
			}
		}
		flush()
		fh.Close()
	}
	sort.Slice(out, func(i, j int) bool { return out[i].Sig < out[j].Sig })
	return out, total
}

var accessHdr = regexp.MustCompile(`^(Read|Write|Previous read|Previous write|Atomic read|Atomic write|Previous atomic read|Previous atomic write) at `)

func analyse(block []string, repo string, src map[string][]string) Race {
	// collect the two access stacks
	var stacks [][]frame
	var cur []frame
	inAccess := false
	for i := 0; i < len(block); i++ {
		l := block[i]
		if accessHdr.MatchString(l) {
			if inAccess {
				stacks = append(stacks, cur)
			}
			cur = nil
			inAccess = true
			continue
		}
		if strings.HasPrefix(l, "Goroutine ") {
			if inAccess {
				stacks = append(stacks, cur)
				inAccess = false
			}
			continue
		}
		if !inAccess {
			continue
		}
		if strings.TrimSpace(l) == "" {
			continue
		}
		if strings.HasPrefix(l, "  ") && !strings.HasPrefix(l, "      ") {
			fn := strings.TrimSpace(l)
			if j := strings.LastIndex(fn, "("); j > 0 {
				fn = fn[:j]
			}
			fr := frame{fn: fn}
			if i+1 < len(block) {
				if m := frameLoc.FindStringSubmatch(block[i+1]); m != nil {
					fr.file = m[1]
					fmt.Sscan(m[2], &fr.line)
				}
			}
			cur = append(cur, fr)
		}
	}
	if inAccess {
		stacks = append(stacks, cur)
	}
	var parts []string
	harnessOnly := true
	for _, st := range stacks {
		desc := "?"
		found := false
		for _, fr := range st {
			if strings.HasPrefix(fr.fn, libPrefix) {
				fn := strings.TrimPrefix(fr.fn, libPrefix)
				desc = fn + "{" + stmt(fr, repo, src) + "}"
				harnessOnly = false
				found = true
				break
			}
			if strings.HasPrefix(fr.fn, harnessPrefix) {
				desc = "harness:" + fr.fn
				found = true
				break
			}
		}
		if !found && len(st) > 0 {
			desc = "other:" + st[0].fn
		}
		parts = append(parts, desc)
	}
	if len(stacks) == 0 {
		harnessOnly = false
		parts = []string{"unparsed"}
	}
	sort.Strings(parts)
	sig := "race:" + strings.Join(parts, "|")
	sig = strings.ReplaceAll(sig, " ", "_")
	lines := block
	if len(lines) > 80 {
		lines = lines[:80]
	}
	return Race{Sig: sig, HarnessOnly: harnessOnly, Lines: lines}
}

func stmt(fr frame, repo string, src map[string][]string) string {
	if fr.file == "" {
		return ""
	}
	path := fr.file
	lines, ok := src[path]
	if !ok {
		b, err := os.ReadFile(path)
		if err != nil {
			// try relative to repo
			b, err = os.ReadFile(filepath.Join(repo, filepath.Base(path)))
		}
		if err == nil {
			lines = strings.Split(string(b), "\n")
		}
		src[path] = lines
	}
	if fr.line >= 1 && fr.line <= len(lines) {
		return strings.Join(strings.Fields(lines[fr.line-1]), " ")
	}
	return ""
}

// ---------------------------------------------------------------------------------------------

// G is one goroutine of a dump.
type G struct {
	ID     string
	State  string
	Frames []string // function names, innermost first
	Raw    string
}

// Snapshot returns all goroutines of the process.
func Snapshot() []G {
	buf := make([]byte, 1<<20)
	for {
		n := runtime.Stack(buf, true)
		if n < len(buf) {
			buf = buf[:n]
			break
		}
		buf = make([]byte, 2*len(buf))
	}
	var out []G
	for _, blk := range strings.Split(string(buf), "\n\n") {
		lines := strings.Split(strings.TrimSpace(blk), "\n")
		if len(lines) == 0 || !strings.HasPrefix(lines[0], "goroutine ") {
			continue
		}
		hdr := lines[0]
		g := G{Raw: blk}
		f := strings.Fields(hdr)
		if len(f) >= 2 {
			g.ID = f[1]
		}
		if i := strings.Index(hdr, "["); i >= 0 {
			g.State = strings.Trim(hdr[i:], "[]:")
			if j := strings.Index(g.State, ","); j >= 0 {
				g.State = g.State[:j]
			}
		}
		for _, l := range lines[1:] {
			if strings.HasPrefix(l, "\t") || strings.HasPrefix(l, "created by ") {
				continue
			}
			fn := l
			if j := strings.LastIndex(fn, "("); j > 0 {
				fn = fn[:j]
			}
			g.Frames = append(g.Frames, fn)
		}
		out = append(out, g)
	}
	return out
}

// LibGoroutines filters goroutines that have a go-smtp frame (including those created by one).
func LibGoroutines(gs []G) []G {
	var out []G
	for _, g := range gs {
		if strings.Contains(g.Raw, libPrefix) {
			out = append(out, g)
		}
	}
	return out
}

// Summary renders a goroutine compactly: state + first library frame + innermost frame.
func (g G) Summary() string {
	lib := ""
	for _, f := range g.Frames {
		if strings.HasPrefix(f, libPrefix) {
			lib = strings.TrimPrefix(f, libPrefix)
			break
		}
	}
	in := ""
	if len(g.Frames) > 0 {
		in = g.Frames[0]
	}
	return fmt.Sprintf("[%s] lib=%s innermost=%s", g.State, lib, in)
}
