// vcheck runs the runtime-monitoring checks for properties C01..C20 of emersion/go-smtp.
//
//	vcheck run <ID> [quick|thorough]     parent: spawns child runs, merges, applies KNOWN_FINDINGS, writes evidence
//	vcheck child <ID> --tier T --seed S --part P --out FILE
//	vcheck replay <file>
package main

import (
	"bufio"
	"context"
	"crypto/sha1"
	"encoding/json"
	"fmt"
	"os"
	"os/exec"
	"path/filepath"
	"regexp"
	"runtime"
	"sort"
	"strconv"
	"strings"
	"syscall"
	"time"

	"verifharness/core"
	"verifharness/detect"
	"verifharness/props"
)

func verifDir() string {
	if d := os.Getenv("VERIF_DIR"); d != "" {
		return d
	}
	exe, err := os.Executable()
	if err == nil {
		d := filepath.Dir(filepath.Dir(exe))
		if _, err := os.Stat(filepath.Join(d, "properties.jsonl")); err == nil {
			return d
		}
	}
	return "/verif"
}

func main() {
	if len(os.Args) < 2 {
		fmt.Fprintln(os.Stderr, "usage: vcheck run|child|replay|list ...")
		os.Exit(2)
	}
	switch os.Args[1] {
	case "list":
		fmt.Println(strings.Join(props.IDs(), " "))
	case "run":
		os.Exit(parent(os.Args[2:]))
	case "child":
		os.Exit(child(os.Args[2:]))
	case "replay":
		os.Exit(replay(os.Args[2:]))
	default:
		fmt.Fprintln(os.Stderr, "unknown subcommand")
		os.Exit(2)
	}
}

func envSeed() uint64 {
	if s := os.Getenv("VERIF_SEED"); s != "" {
		if v, err := strconv.ParseUint(s, 10, 64); err == nil {
			return v
		}
		if v, err := strconv.ParseInt(s, 10, 64); err == nil {
			return uint64(v)
		}
	}
	return 1
}

// ---------------------------------------------------------------------------------------------

func child(args []string) int {
	if len(args) < 1 {
		return 2
	}
	id := args[0]
	tier, part, out := "quick", "main", ""
	seed := uint64(1)
	for i := 1; i+1 < len(args); i += 2 {
		switch args[i] {
		case "--tier":
			tier = args[i+1]
		case "--seed":
			seed, _ = strconv.ParseUint(args[i+1], 10, 64)
		case "--part":
			part = args[i+1]
		case "--out":
			out = args[i+1]
		}
	}
	p := props.Get(id)
	if p == nil {
		fmt.Fprintln(os.Stderr, "unknown property", id)
		return 2
	}
	ctx := core.NewCtx(id, part, tier, seed)
	ctx.Level = p.Level
	ctx.KnownSigs = map[string]bool{}
	for _, k := range loadKnown(verifDir(), id) {
		ctx.KnownSigs[k.Sig] = true
	}
	// pinned witnesses of open known findings are executed first
	wdir := filepath.Join(verifDir(), "known", id)
	if ents, err := os.ReadDir(wdir); err == nil && p.Replay != nil {
		for _, e := range ents {
			if !strings.HasSuffix(e.Name(), ".json") {
				continue
			}
			b, err := os.ReadFile(filepath.Join(wdir, e.Name()))
			if err != nil {
				continue
			}
			var w struct {
				Part string          `json:"part"`
				Case json.RawMessage `json:"case"`
			}
			if json.Unmarshal(b, &w) != nil || len(w.Case) == 0 {
				ctx.Broken("unreadable witness " + e.Name())
				continue
			}
			if w.Part != "" && w.Part != part {
				continue
			}
			if err := p.Replay(ctx, w.Case); err != nil {
				ctx.Broken("witness " + e.Name() + ": " + err.Error())
			}
			ctx.Add("pinned_witnesses_executed", 1)
		}
	}
	p.Run(ctx)
	res := ctx.Result()
	b, _ := json.Marshal(res)
	if out == "" {
		os.Stdout.Write(b)
		return 0
	}
	if err := os.WriteFile(out, b, 0o644); err != nil {
		fmt.Fprintln(os.Stderr, err)
		return 2
	}
	return 0
}

// ---------------------------------------------------------------------------------------------

type known struct {
	Prop, Sig, Text string
	seen            bool
}

func loadKnown(dir, id string) []*known {
	f, err := os.Open(filepath.Join(dir, "KNOWN_FINDINGS.txt"))
	if err != nil {
		return nil
	}
	defer f.Close()
	var out []*known
	re := regexp.MustCompile(`^open:\s+property=(\S+)\s+sig=(\S+)\s*(.*)$`)
	sc := bufio.NewScanner(f)
	sc.Buffer(make([]byte, 1<<20), 1<<20)
	for sc.Scan() {
		m := re.FindStringSubmatch(strings.TrimSpace(sc.Text()))
		if m == nil || m[1] != id {
			continue
		}
		out = append(out, &known{Prop: m[1], Sig: m[2], Text: m[3]})
	}
	return out
}

func parent(args []string) int {
	if len(args) < 1 {
		fmt.Fprintln(os.Stderr, "usage: vcheck run <ID> [quick|thorough]")
		return 2
	}
	id := args[0]
	tier := os.Getenv("VERIF_TIER")
	if len(args) > 1 {
		tier = args[1]
	}
	if tier != "thorough" {
		tier = "quick"
	}
	seed := envSeed()
	p := props.Get(id)
	if p == nil {
		fmt.Printf("BROKEN-CHECK property=%s unknown property\n", id)
		return 2
	}
	dir := verifDir()
	outDir := filepath.Join(dir, "out", id+"-"+tier)
	os.RemoveAll(outDir)
	os.MkdirAll(outDir, 0o755)
	start := time.Now()

	var results []*core.Result
	var broken []string
	var crashViol []core.Violation
	raceTotal := 0
	var races []detect.Race
	inconclusive := int64(0)
	for _, part := range p.Parts(tier) {
		bin := filepath.Join(dir, "bin", "vcheck")
		if part.Race {
			bin = filepath.Join(dir, "bin", "vcheck-race")
		}
		resFile := filepath.Join(outDir, part.Name+".json")
		logFile := filepath.Join(outDir, part.Name+".log")
		lf, _ := os.Create(logFile)
		limit := 20 * time.Minute
		if tier == "thorough" {
			limit = 4 * time.Hour
		}
		cctx, cancel := context.WithTimeout(context.Background(), limit)
		cmd := exec.CommandContext(cctx, bin, "child", id, "--tier", tier, "--seed", fmt.Sprint(seed), "--part", part.Name, "--out", resFile)
		cmd.Cancel = func() error { return cmd.Process.Signal(syscall.SIGQUIT) }
		cmd.WaitDelay = 20 * time.Second
		cmd.Stdout, cmd.Stderr = lf, lf
		cmd.Env = append(os.Environ(), "VERIF_DIR="+dir, "GOMEMLIMIT=6GiB")
		if part.GOMAXPROCS > 0 {
			cmd.Env = append(cmd.Env, fmt.Sprintf("GOMAXPROCS=%d", part.GOMAXPROCS))
		}
		racePrefix := filepath.Join(outDir, "race-"+part.Name)
		if part.Race {
			cmd.Env = append(cmd.Env, "GORACE=halt_on_error=0 history_size=4 log_path="+racePrefix)
		}
		err := cmd.Run()
		timedOut := cctx.Err() != nil
		cancel()
		lf.Close()
		b, rerr := os.ReadFile(resFile)
		if rerr != nil {
			logTxt, _ := os.ReadFile(logFile)
			tail := string(logTxt)
			if len(tail) > 6000 {
				tail = tail[:3000] + "\n...\n" + tail[len(tail)-3000:]
			}
			switch {
			case timedOut:
				inconclusive++
				fmt.Printf("INCONCLUSIVE property=%s part=%s outer watchdog expired after %s (goroutine dump in %s)\n", id, part.Name, limit, logFile)
			case strings.Contains(string(logTxt), "github.com/emersion/go-smtp.") && (strings.Contains(string(logTxt), "panic:") || strings.Contains(string(logTxt), "fatal error:")):
				crashViol = append(crashViol, core.Violation{Sig: id + ":process-crash", Msg: fmt.Sprintf("child process of part %s died with go-smtp frames on the stack: %v", part.Name, err), Log: strings.Split(tail, "\n")})
			default:
				broken = append(broken, fmt.Sprintf("part %s produced no result (%v): %s", part.Name, err, tail))
			}
			continue
		}
		var r core.Result
		if err := json.Unmarshal(b, &r); err != nil {
			broken = append(broken, "unreadable result of part "+part.Name)
			continue
		}
		results = append(results, &r)
		if part.Race {
			rs, n := detect.ParseRaceLogs(racePrefix, "/repo")
			raceTotal += n
			races = append(races, rs...)
		}
	}

	// merge
	var evals, distinct int64
	counters := map[string]int64{}
	var samples []any
	var viols []core.Violation
	violCount := map[string]int64{}
	var assumptions []string
	rule := ""
	exhaustive := true
	var inconEx []string
	for _, r := range results {
		evals += r.Evaluations
		distinct += r.Distinct
		for k, v := range r.Counters {
			counters[k] += v
		}
		if len(samples) < 24 {
			samples = append(samples, r.Samples...)
		}
		viols = append(viols, r.Violations...)
		for k, v := range r.ViolationCount {
			violCount[k] += v
		}
		inconclusive += r.Inconclusive
		inconEx = append(inconEx, r.InconclusiveEx...)
		broken = append(broken, r.Broken...)
		if rule == "" {
			rule = r.Rule
		} else if r.Rule != rule && r.Rule != "" {
			rule += " || " + r.Part + ": " + r.Rule
		}
		if !r.Exhaustive {
			exhaustive = false
		}
		for _, a := range r.Assumptions {
			dup := false
			for _, b := range assumptions {
				if a == b {
					dup = true
				}
			}
			if !dup {
				assumptions = append(assumptions, a)
			}
		}
	}
	if len(results) == 0 {
		exhaustive = false
	}
	// races → violations (or harness defects)
	raceSigs := map[string]int{}
	for _, rc := range races {
		if rc.HarnessOnly {
			broken = append(broken, "data race inside the harness itself:\n"+strings.Join(rc.Lines, "\n"))
			continue
		}
		raceSigs[rc.Sig]++
		if raceSigs[rc.Sig] == 1 {
			viols = append(viols, core.Violation{Sig: rc.Sig, Msg: "data race reported by the Go race detector", Log: rc.Lines})
		}
		violCount[rc.Sig]++
	}
	viols = append(viols, crashViol...)
	for _, v := range crashViol {
		violCount[v.Sig]++
	}

	// known findings
	kn := loadKnown(dir, id)
	isKnown := func(sig string) *known {
		for _, k := range kn {
			if k.Sig == sig {
				return k
			}
		}
		return nil
	}
	exit := 0
	newViol := 0
	knownSeen := map[string]int64{}
	repDir := filepath.Join(dir, "replays", id)
	printed := map[string]int{}
	sort.SliceStable(viols, func(i, j int) bool { return viols[i].Sig < viols[j].Sig })
	for _, v := range viols {
		if k := isKnown(v.Sig); k != nil {
			k.seen = true
			continue
		}
		newViol++
		printed[v.Sig]++
		if printed[v.Sig] > 3 {
			continue
		}
		os.MkdirAll(repDir, 0o755)
		doc := map[string]any{"property": id, "sig": v.Sig, "msg": v.Msg, "case": v.Case, "log": v.Log, "tier": tier, "seed": seed}
		b, _ := json.MarshalIndent(doc, "", " ")
		h := sha1.Sum(b)
		path := filepath.Join(repDir, fmt.Sprintf("%x.json", h[:8]))
		os.WriteFile(path, b, 0o644)
		fmt.Printf("VIOLATION property=%s replay=%s sig=%s count=%d :: %s\n", id, path, v.Sig, violCount[v.Sig], clip(v.Msg, 400))
		exit = 1
	}
	for sig, n := range violCount {
		if isKnown(sig) != nil {
			knownSeen[sig] = n
		}
	}
	for _, k := range kn {
		if k.seen || knownSeen[k.Sig] > 0 {
			fmt.Printf("KNOWN-FINDING: property=%s sig=%s observed=%d %s\n", id, k.Sig, knownSeen[k.Sig], k.Text)
		} else {
			fmt.Printf("STALE-FINDING property=%s sig=%s was not re-observed in this run (entry may be turned into a fixed: line)\n", id, k.Sig)
		}
	}
	if inconclusive > 0 {
		fmt.Printf("INCONCLUSIVE property=%s cases=%d e.g. %s\n", id, inconclusive, clip(strings.Join(inconEx, " | "), 300))
	}
	for _, b := range broken {
		fmt.Printf("BROKEN-CHECK property=%s %s\n", id, clip(b, 3000))
	}
	if len(broken) > 0 && exit == 0 {
		exit = 2
	}
	if exit == 0 && (evals == 0 || distinct < 2) {
		fmt.Printf("BROKEN-CHECK property=%s observed nothing (evaluations=%d distinct_nontrivial=%d)\n", id, evals, distinct)
		exit = 2
	}

	// evidence
	cov := map[string]any{
		"evaluations": evals, "distinct_nontrivial": distinct, "rule": rule, "samples": samples,
		"exhaustive": exhaustive, "inconclusive": inconclusive, "race_reports": raceTotal,
		"distinct_race_signatures": len(raceSigs), "known_findings_seen": knownSeen,
		"violation_signatures": violCount, "parts": len(results),
	}
	if len(samples) == 0 {
		cov["samples"] = []any{"(no case completed)"}
	}
	for k, v := range counters {
		cov[k] = v
	}
	ev := map[string]any{
		"property_id": id, "tier": tier, "seed": int64(seed), "level": p.Level, "coverage": cov,
		"assumptions": assumptions, "wall_s": time.Since(start).Seconds(), "violations": newViol,
		"go": runtime.Version(),
	}
	os.MkdirAll(filepath.Join(dir, "evidence"), 0o755)
	b, _ := json.MarshalIndent(ev, "", " ")
	os.WriteFile(filepath.Join(dir, "evidence", id+".json"), b, 0o644)
	fmt.Printf("SUMMARY property=%s tier=%s seed=%d evaluations=%d distinct_nontrivial=%d violations=%d known=%d inconclusive=%d races=%d wall=%.1fs exit=%d\n",
		id, tier, seed, evals, distinct, newViol, len(knownSeen), inconclusive, raceTotal, time.Since(start).Seconds(), exit)
	return exit
}

func clip(s string, n int) string {
	if len(s) <= n {
		return s
	}
	return s[:n] + "..."
}

// ---------------------------------------------------------------------------------------------

func replay(args []string) int {
	if len(args) < 1 {
		return 2
	}
	b, err := os.ReadFile(args[0])
	if err != nil {
		fmt.Fprintln(os.Stderr, err)
		return 2
	}
	var doc struct {
		Property string          `json:"property"`
		Case     json.RawMessage `json:"case"`
	}
	if err := json.Unmarshal(b, &doc); err != nil {
		fmt.Fprintln(os.Stderr, err)
		return 2
	}
	p := props.Get(doc.Property)
	if p == nil || p.Replay == nil || len(doc.Case) == 0 {
		fmt.Fprintln(os.Stderr, "no replayable case in", args[0])
		return 2
	}
	ctx := core.NewCtx(doc.Property, "replay", "quick", envSeed())
	ctx.Workers = 1
	if err := p.Replay(ctx, doc.Case); err != nil {
		fmt.Fprintln(os.Stderr, err)
		return 2
	}
	res := ctx.Result()
	for _, v := range res.Violations {
		fmt.Printf("VIOLATION property=%s replay=%s sig=%s :: %s\n", doc.Property, args[0], v.Sig, v.Msg)
		for _, l := range v.Log {
			fmt.Println("   ", l)
		}
	}
	for _, bk := range res.Broken {
		fmt.Println("BROKEN-CHECK", bk)
	}
	if len(res.Violations) > 0 {
		return 1
	}
	fmt.Printf("held on replay (evaluations=%d inconclusive=%d)\n", res.Evaluations, res.Inconclusive)
	return 0
}
